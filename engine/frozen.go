// Write barrier and lockset instrumentation (DESIGN §2.14).
package main

import (
	"fmt"
	"go/types"
)

type frozenHit struct {
	level  uint8
	where  string
	label  string
	same   bool
	locks  int
	isMap  bool
	newVal Value
}

type access struct {
	cell  *Cell
	write bool
	locks []*Cell
	where string
	gor   int
}

func (ex *Exec) curWhere() string {
	if ex.curFrame != nil {
		p := ex.posOf(ex.curFrame, ex.curFrame.curPos)
		return fmt.Sprintf("%s:%d (%s)", p.Filename, p.Line, shortFn(ex.curFrame.fn.String()))
	}
	return "?"
}

func cellPath(c *Cell) string {
	if c == nil {
		return "?"
	}
	if c.label != "" {
		return c.label
	}
	if c.parent != nil {
		for i, e := range c.parent.elems {
			if e == c {
				if st, ok := c.parent.typ.Underlying().(*types.Struct); ok {
					return cellPath(c.parent) + "." + st.Field(i).Name()
				}
				return fmt.Sprintf("%s[%d]", cellPath(c.parent), i)
			}
		}
	}
	return "<" + typeStr(c.typ) + ">"
}

func (ex *Exec) frozenWrite(c *Cell, v Value) {
	same := false
	func() {
		defer func() {
			if r := recover(); r != nil {
				if _, ok := r.(unsupported); !ok {
					panic(r)
				}
			}
		}()
		eq := ex.deepEqual(c.val, v, 0)
		same = eq.conc && eq.cv != 0
	}()
	ex.frozenHits = append(ex.frozenHits, frozenHit{level: c.frozen, where: ex.curWhere(), label: cellPath(c), same: same, locks: len(ex.heldLocks()), newVal: v})
	if ex.sharedOn && c.frozen == 2 {
		ex.noteShared(c, func() string { return cellPath(c) }, true)
	}
}

func (ex *Exec) frozenMapWrite(m *MapObj, key Value) {
	ks, _ := ex.keyString(key)
	lvl := uint8(2)
	ex.frozenHits = append(ex.frozenHits, frozenHit{level: lvl, where: ex.curWhere(), label: fmt.Sprintf("map#%d{%s}", m.id, ks), isMap: true, locks: len(ex.heldLocks())})
	if ex.sharedOn {
		ex.noteShared(m, func() string { return fmt.Sprintf("map#%d", m.id) }, true)
	}
}

// sharedInfo is the Eraser state of one shared location (a leaf cell or a map): the locks held at every access so far.
type sharedInfo struct {
	label    string
	written  bool
	inited   bool
	lockset  map[*Cell]bool
	writeAt  string
	unlocked []string // accesses made with no lock at all (for the message)
}

func (ex *Exec) noteShared(key interface{}, label func() string, write bool) {
	if ex.sharedAcc == nil {
		ex.sharedAcc = map[interface{}]*sharedInfo{}
	}
	inf := ex.sharedAcc[key]
	if inf == nil {
		inf = &sharedInfo{label: label()}
		ex.sharedAcc[key] = inf
		ex.sharedOrder = append(ex.sharedOrder, key)
	}
	held := ex.heldLocks()
	if !inf.inited {
		inf.inited = true
		inf.lockset = map[*Cell]bool{}
		for _, l := range held {
			inf.lockset[l] = true
		}
	} else {
		for l := range inf.lockset {
			found := false
			for _, h := range held {
				if h == l {
					found = true
				}
			}
			if !found {
				delete(inf.lockset, l)
			}
		}
	}
	if write {
		inf.written = true
		if inf.writeAt == "" {
			inf.writeAt = ex.curWhere()
		}
	}
	if len(held) == 0 && len(inf.unlocked) < 3 {
		kind := "read"
		if write {
			kind = "written"
		}
		w := kind + " at " + ex.curWhere()
		for _, u := range inf.unlocked {
			if u == w {
				return
			}
		}
		inf.unlocked = append(inf.unlocked, w)
	}
}

func (ex *Exec) noteRead(c *Cell) {
	if !ex.sharedOn || c == nil {
		return
	}
	if c.elems != nil {
		for _, e := range c.elems {
			ex.noteRead(e)
		}
		return
	}
	if c.frozen == 2 {
		if _, isN := c.val.(NativeV); isN {
			return // the synchronisation objects themselves
		}
		ex.noteShared(c, func() string { return cellPath(c) }, false)
	}
}

func (ex *Exec) noteMapRead(m *MapObj) {
	if ex.sharedOn && m != nil && m.frozen {
		ex.noteShared(m, func() string { return fmt.Sprintf("map#%d", m.id) }, false)
	}
}

func (ex *Exec) heldLocks() []*Cell {
	if ex.sched != nil && ex.sched.cur != nil {
		return ex.sched.cur.held
	}
	return ex.held
}

// freeze marks every cell and map reachable from v.
func (ex *Exec) freeze(v Value, level uint8) {
	seen := map[*Cell]bool{}
	seenM := map[*MapObj]bool{}
	var walkCell func(c *Cell)
	var walk func(v Value)
	walkCell = func(c *Cell) {
		if c == nil || seen[c] {
			return
		}
		seen[c] = true
		if c.frozen == 0 {
			if ex.journalOn {
				ex.journal = append(ex.journal, undoRec{fz: c, fzo: c.frozen})
			}
			c.frozen = level
		}
		if c.elems != nil {
			for _, e := range c.elems {
				walkCell(e)
			}
			return
		}
		if _, isP := c.val.(Poison); isP {
			return
		}
		walk(c.val)
	}
	walk = func(v Value) {
		switch x := v.(type) {
		case Ptr:
			walkCell(x.c)
		case IfaceV:
			walk(x.v)
		case StructV:
			for _, e := range x {
				walk(e)
			}
		case SliceV:
			for i := 0; i < x.cp && x.off+i < len(x.arr); i++ {
				walkCell(x.arr[x.off+i])
			}
		case *MapObj:
			if x == nil || seenM[x] {
				return
			}
			seenM[x] = true
			if !x.frozen {
				if ex.journalOn {
					ex.journal = append(ex.journal, undoRec{mfz: x})
				}
				x.frozen = true
			}
			for _, e := range x.entries {
				walk(e.key)
				walk(e.val)
			}
		case *FuncV:
			if x != nil {
				for _, b := range x.bind {
					walk(b)
				}
			}
		case RVal:
			walk(x.v)
			walkCell(x.cell)
		}
	}
	walk(v)
	ex.frozenOn = true
}

func (ex *Exec) freezeGlobals() {
	for g, c := range ex.globals {
		if g.Pkg != nil && ex.isTargetPkg(g.Pkg) {
			ex.freeze(Ptr{c}, 2)
		}
	}
}
