// Concrete evaluation of terms under a model (concolic pruning): the side of a branch that the current model
// already satisfies needs no solver query.
package main

import (
	"strings"
)

type evalCtx struct {
	env  map[string]uint64
	memo map[*Term]*Term
	fail bool
}

// evalTerm returns the constant t denotes under env, or nil if some symbol has no value or an operator is unknown.
func (ec *evalCtx) eval(t *Term) *Term {
	if t.conc {
		return t
	}
	if r, ok := ec.memo[t]; ok {
		return r
	}
	var r *Term
	if t.sym {
		v, ok := ec.env[t.op]
		if !ok {
			ec.fail = true
			return nil
		}
		switch t.sort {
		case SBool:
			r = boolConst(v != 0)
		case SBV:
			r = bvConst(t.w, v)
		default:
			r = fpConstBits(t.w, v)
		}
	} else {
		args := make([]*Term, len(t.args))
		for i, a := range t.args {
			if len(a.args) == 0 && !a.sym && !a.conc {
				args[i] = a // rounding-mode literal
				continue
			}
			args[i] = ec.eval(a)
			if args[i] == nil {
				return nil
			}
		}
		r = applyOp(t, args)
		if r == nil || !r.conc {
			ec.fail = true
			return nil
		}
	}
	ec.memo[t] = r
	return r
}

func applyOp(t *Term, a []*Term) *Term {
	op := t.op
	switch op {
	case "not":
		return tNot(a[0])
	case "and":
		return tAnd(a[0], a[1])
	case "or":
		return tOr(a[0], a[1])
	case "=":
		if a[0].sort == SFP {
			return tSame(a[0], a[1])
		}
		return tEq(a[0], a[1])
	case "ite":
		return tIte(a[0], a[1], a[2])
	case "bvadd":
		return bvAdd(a[0], a[1])
	case "bvsub":
		return bvSub(a[0], a[1])
	case "bvmul":
		return bvMul(a[0], a[1])
	case "bvand":
		return bvAnd(a[0], a[1])
	case "bvor":
		return bvOr(a[0], a[1])
	case "bvxor":
		return bvXor(a[0], a[1])
	case "bvnot":
		return bvNot(a[0])
	case "bvneg":
		return bvNeg(a[0])
	case "bvsdiv":
		return bvSDiv(a[0], a[1])
	case "bvsrem":
		return bvSRem(a[0], a[1])
	case "bvudiv":
		return bvUDiv(a[0], a[1])
	case "bvurem":
		return bvURem(a[0], a[1])
	case "bvshl":
		return bvShl(a[0], a[1])
	case "bvlshr":
		return bvLShr(a[0], a[1])
	case "bvashr":
		return bvAShr(a[0], a[1])
	case "bvslt":
		return bvSlt(a[0], a[1])
	case "bvsle":
		return bvSle(a[0], a[1])
	case "bvult":
		return bvUlt(a[0], a[1])
	case "bvule":
		return bvUle(a[0], a[1])
	case "fp.eq":
		return tEq(a[0], a[1])
	case "fp.lt":
		return fpLt(a[0], a[1])
	case "fp.leq":
		return fpLe(a[0], a[1])
	case "fp.isNaN":
		return fpIsNaN(a[0])
	case "fp.isInfinite":
		return fpIsInf(a[0])
	case "fp.isNegative":
		return fpIsNeg(a[0])
	case "fp.neg":
		return fpNeg(a[0])
	case "fp.abs":
		return fpAbs(a[0])
	case "fp.add":
		return fpAdd(a[1], a[2])
	case "fp.sub":
		return fpSub(a[1], a[2])
	case "fp.mul":
		return fpMul(a[1], a[2])
	case "fp.div":
		return fpDiv(a[1], a[2])
	case "fp.roundToIntegral":
		return fpRoundInt(a[0].op, a[1])
	case "(_ fp.to_sbv 64)":
		return fpToBV(a[1], true, 64)
	}
	switch {
	case strings.HasPrefix(op, "(_ extract "):
		return bvResize(a[0], t.w, false)
	case strings.HasPrefix(op, "(_ zero_extend "):
		return bvResize(a[0], t.w, false)
	case strings.HasPrefix(op, "(_ sign_extend "):
		return bvResize(a[0], t.w, true)
	case strings.HasPrefix(op, "(_ to_fp_unsigned "):
		return fpFromBV(a[1], false, t.w)
	case strings.HasPrefix(op, "(_ to_fp "):
		if len(a) == 1 { // reinterpret bits
			return fpConstBits(t.w, a[0].cv)
		}
		if a[1].sort == SFP {
			return fpToFP(a[1], t.w)
		}
		return fpFromBV(a[1], true, t.w)
	}
	return nil
}

// evalUnderModel evaluates a boolean condition under the current model; ok=false if there is no usable model.
func (ex *Exec) evalUnderModel(c *Term) (val bool, ok bool) {
	if !ex.modelValid || ex.curModel == nil {
		return false, false
	}
	ec := &evalCtx{env: ex.curModel, memo: ex.evalMemo}
	r := ec.eval(c)
	if r == nil || ec.fail {
		return false, false
	}
	// side conditions (definitions of auxiliary symbols) must hold under the model as well
	for _, ax := range c.side {
		ar := ec.eval(ax)
		if ar == nil || ar.cv == 0 {
			return false, false
		}
	}
	return r.cv != 0, true
}

// collectSyms records the symbol leaves of t (so that their model values can be requested).
func (ex *Exec) collectSyms(t *Term) {
	if t.conc || ex.symSeen[t] {
		return
	}
	ex.symSeen[t] = true
	if t.sym {
		ex.symbols = append(ex.symbols, t)
		return
	}
	for _, a := range t.args {
		ex.collectSyms(a)
	}
	for _, ax := range t.side {
		ex.collectSyms(ax)
	}
}

// satWithModel asks whether pc AND goal is satisfiable; on sat the model of all known symbols is captured.
func (ex *Exec) satWithModel(goal *Term) (string, map[string]uint64) {
	ex.prepHard(goal)
	ex.collectSyms(goal)
	var m map[string]uint64
	r := ex.onActive(func(s *Solver) string {
		s.push()
		s.assert(goal)
		r := s.check()
		if r == "sat" && len(ex.symbols) > 0 {
			if vals, ok := s.getValues(ex.symbols); ok {
				m = make(map[string]uint64, len(vals))
				for i, sy := range ex.symbols {
					m[sy.op] = vals[i]
				}
			}
		} else if r == "sat" {
			m = map[string]uint64{}
		}
		s.pop()
		return r
	})
	if r == "unknown" {
		m = nil
	}
	if r == "unknown" {
		r2, vals := ex.fallbackQuery(goal, ex.symbols)
		r = r2
		if r == "sat" {
			m = make(map[string]uint64, len(vals))
			for i, sy := range ex.symbols {
				m[sy.op] = vals[i]
			}
		}
		if r == "unknown" {
			ex.nUnknown++
		}
	}
	return r, m
}

func (ex *Exec) prepHard(t *Term) {}

func (ex *Exec) setModel(m map[string]uint64) {
	if m == nil {
		ex.modelValid = false
		return
	}
	ex.curModel = m
	ex.modelValid = true
	ex.evalMemo = map[*Term]*Term{}
}
