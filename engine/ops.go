// Operators, conversions, builtins, maps and iteration.
package main

import (
	"fmt"
	"go/token"
	"go/types"
	"strconv"
	"unicode/utf8"

	"golang.org/x/tools/go/ssa"
)

func (ex *Exec) unop(fr *Frame, ins *ssa.UnOp) Value {
	x := ex.val(fr, ins.X)
	switch ins.Op {
	case token.MUL:
		p := x.(Ptr)
		if p.c == nil {
			ex.rtPanic(fr, ins.Pos(), "invalid memory address or nil pointer dereference")
		}
		ex.noteRead(p.c)
		return load(p.c)
	case token.NOT:
		return tNot(x.(*Term))
	case token.SUB:
		t := x.(*Term)
		if t.sort == SFP {
			return fpNeg(t)
		}
		return bvNeg(t)
	case token.XOR:
		return bvNot(x.(*Term))
	case token.ARROW:
		return ex.chanRecv(fr, x.(*ChanObj), ins.CommaOk, ins.Pos())
	}
	panic(unsupported{"unop " + ins.Op.String()})
}

func (ex *Exec) binop(fr *Frame, op token.Token, xt types.Type, x, y Value, pos token.Pos) Value {
	switch op {
	case token.EQL:
		return ex.equal(x, y, xt)
	case token.NEQ:
		return tNot(ex.equal(x, y, xt))
	}
	switch xv := x.(type) {
	case *Term:
		yv := y.(*Term)
		if xv.sort == SFP {
			switch op {
			case token.ADD:
				return fpAdd(xv, yv)
			case token.SUB:
				return fpSub(xv, yv)
			case token.MUL:
				return fpMul(xv, yv)
			case token.QUO:
				return fpDiv(xv, yv)
			case token.LSS:
				return fpLt(xv, yv)
			case token.LEQ:
				return fpLe(xv, yv)
			case token.GTR:
				return fpLt(yv, xv)
			case token.GEQ:
				return fpLe(yv, xv)
			}
			break
		}
		signed := isSigned(xt)
		switch op {
		case token.LSS:
			if signed {
				return bvSlt(xv, yv)
			}
			return bvUlt(xv, yv)
		case token.LEQ:
			if signed {
				return bvSle(xv, yv)
			}
			return bvUle(xv, yv)
		case token.GTR:
			if signed {
				return bvSlt(yv, xv)
			}
			return bvUlt(yv, xv)
		case token.GEQ:
			if signed {
				return bvSle(yv, xv)
			}
			return bvUle(yv, xv)
		case token.ADD:
			return bvAdd(xv, yv)
		case token.SUB:
			return bvSub(xv, yv)
		case token.MUL:
			return bvMul(xv, yv)
		case token.QUO, token.REM:
			if !ex.decide(tNot(tEq(yv, bvConst(yv.w, 0)))) {
				ex.rtPanic(fr, pos, "integer divide by zero")
			}
			if op == token.QUO {
				if signed {
					return bvSDiv(xv, yv)
				}
				return bvUDiv(xv, yv)
			}
			if signed {
				return bvSRem(xv, yv)
			}
			return bvURem(xv, yv)
		case token.AND:
			return bvAnd(xv, yv)
		case token.OR:
			return bvOr(xv, yv)
		case token.XOR:
			return bvXor(xv, yv)
		case token.AND_NOT:
			return bvAnd(xv, bvNot(yv))
		case token.SHL, token.SHR:
			// shift count: bring to the width of x, saturating
			cnt := yv
			if cnt.w > xv.w {
				big := bvUle(bvConst(cnt.w, uint64(xv.w)), cnt)
				cnt = tIte(big, bvConst(xv.w, uint64(xv.w)), bvResize(cnt, xv.w, false))
			} else if cnt.w < xv.w {
				cnt = bvResize(cnt, xv.w, false)
			}
			if op == token.SHL {
				return bvShl(xv, cnt)
			}
			if signed {
				return bvAShr(xv, cnt)
			}
			return bvLShr(xv, cnt)
		}
	case StrV:
		yv := y.(StrV)
		switch op {
		case token.ADD:
			return ex.strConcat(xv, yv)
		case token.LSS, token.LEQ, token.GTR, token.GEQ:
			a, b := ex.concStr(xv, "string compare"), ex.concStr(yv, "string compare")
			switch op {
			case token.LSS:
				return boolConst(a < b)
			case token.LEQ:
				return boolConst(a <= b)
			case token.GTR:
				return boolConst(a > b)
			default:
				return boolConst(a >= b)
			}
		}
	}
	panic(unsupported{fmt.Sprintf("binop %s on %T", op, x)})
}

// equal is Go's == on two values of static type t (dynamic for interfaces).
func (ex *Exec) equal(x, y Value, t types.Type) *Term {
	switch xv := x.(type) {
	case *Term:
		return tEq(xv, y.(*Term))
	case StrV:
		return ex.strEq(xv, y.(StrV))
	case Ptr:
		return boolConst(xv.c == y.(Ptr).c)
	case IfaceV:
		yv := y.(IfaceV)
		if xv.typ == nil || yv.typ == nil {
			return boolConst(xv.typ == nil && yv.typ == nil)
		}
		if rx, ok := xv.v.(RType); ok {
			ry, ok2 := yv.v.(RType)
			return boolConst(ok2 && types.Identical(rx.t, ry.t))
		}
		if !types.Identical(xv.typ, yv.typ) {
			return termFalse
		}
		if !types.Comparable(xv.typ) {
			panic(&targetPanic{v: ex.makeErrorValue("runtime error: comparing uncomparable type " + typeStr(xv.typ)), msg: "runtime error: comparing uncomparable type " + typeStr(xv.typ), runtime: true})
		}
		return ex.equal(xv.v, yv.v, xv.typ)
	case StructV:
		yv := y.(StructV)
		r := termTrue
		switch u := t.Underlying().(type) {
		case *types.Struct:
			for i := range xv {
				r = tAnd(r, ex.equal(xv[i], yv[i], u.Field(i).Type()))
			}
		case *types.Array:
			for i := range xv {
				r = tAnd(r, ex.equal(xv[i], yv[i], u.Elem()))
			}
		}
		return r
	case *MapObj:
		return boolConst(xv == y.(*MapObj)) // only comparable to nil
	case *FuncV:
		return boolConst(xv == y.(*FuncV))
	case *ChanObj:
		return boolConst(xv == y.(*ChanObj))
	case SliceV:
		yv := y.(SliceV)
		return boolConst(xv.isNil() == yv.isNil()) // only comparable to nil
	case RType:
		yv, ok := y.(RType)
		return boolConst(ok && types.Identical(xv.t, yv.t))
	case NativeV:
		yv, ok := y.(NativeV)
		return boolConst(ok && xv.v == yv.v)
	case nil:
		return boolConst(y == nil)
	}
	panic(unsupported{fmt.Sprintf("equal on %T", x)})
}

func (ex *Exec) convert(fr *Frame, from, to types.Type, x Value, pos token.Pos) Value {
	fu, tu := from.Underlying(), to.Underlying()
	switch xv := x.(type) {
	case *Term:
		tb, ok := tu.(*types.Basic)
		if !ok {
			break
		}
		switch {
		case xv.sort == SBV && tb.Info()&types.IsInteger != 0:
			return bvResize(xv, width(tb), isSigned(from))
		case xv.sort == SBV && tb.Info()&types.IsFloat != 0:
			return fpFromBV(xv, isSigned(from), floatWidth(to))
		case xv.sort == SFP && tb.Info()&types.IsFloat != 0:
			return fpToFP(xv, floatWidth(to))
		case xv.sort == SFP && tb.Info()&types.IsInteger != 0:
			return fpToBV(xv, isSigned(to), width(tb))
		case xv.sort == SBV && tb.Info()&types.IsString != 0:
			// rune conversion
			if !xv.conc {
				return ex.runeStringSym(bvResize(xv, 64, isSigned(from)))
			}
			return StrV{s: runeString(xv.sval(), isSigned(from), xv.cv)}
		case xv.sort == SBool && tb.Info()&types.IsBoolean != 0:
			return xv
		}
	case StrV:
		switch tt := tu.(type) {
		case *types.Basic:
			if tt.Info()&types.IsString != 0 {
				return xv
			}
		case *types.Slice:
			eb, _ := tt.Elem().Underlying().(*types.Basic)
			if eb != nil && eb.Kind() == types.Uint8 {
				return ex.strToBytes(xv, tt)
			}
			if eb != nil && eb.Kind() == types.Int32 {
				s := ex.concStr(xv, "[]rune(s)")
				rs := []rune(s)
				arr := make([]*Cell, len(rs))
				for i, r := range rs {
					arr[i] = ex.newCellVal(tt.Elem(), bvConst(32, uint64(r)))
				}
				return SliceV{arr: arr, n: len(arr), cp: len(arr), nonNil: true}
			}
		}
	case SliceV:
		if _, ok := tu.(*types.Slice); ok {
			return xv
		}
		if tb, ok := tu.(*types.Basic); ok && tb.Info()&types.IsString != 0 {
			return ex.bytesToStr(xv, fu.(*types.Slice))
		}
	case Ptr:
		return xv
	}
	if types.Identical(fu, tu) {
		return x
	}
	panic(unsupported{fmt.Sprintf("convert %s -> %s (%T)", from, to, x)})
}

func runeString(sv int64, signed bool, uv uint64) string {
	if !signed && uv > utf8.MaxRune {
		return "�"
	}
	if sv < 0 || sv > utf8.MaxRune {
		return "�"
	}
	return string(rune(sv))
}

// ---------- builtins ----------

func (ex *Exec) builtin(name string, args []Value, fr *Frame, pos token.Pos, ins *ssa.Call) Value {
	switch name {
	case "ssa:wrapnilchk":
		if args[0].(Ptr).c == nil {
			recv := args[1].(StrV).s
			meth := args[2].(StrV).s
			ex.rtPanic(fr, pos, fmt.Sprintf("value method %s.%s called using nil pointer", recv, meth))
		}
		return args[0]
	case "len":
		switch x := args[0].(type) {
		case SliceV:
			return bvConst(64, uint64(x.n))
		case StrV:
			return ex.strLen(x)
		case *MapObj:
			if x == nil {
				return bvConst(64, 0)
			}
			ex.noteMapRead(x)
			return bvConst(64, uint64(len(x.entries)))
		case StructV:
			return bvConst(64, uint64(len(x)))
		case Ptr:
			return bvConst(64, uint64(len(x.c.elems)))
		case *ChanObj:
			if x == nil {
				return bvConst(64, 0)
			}
			return bvConst(64, uint64(len(x.buf)))
		}
	case "cap":
		switch x := args[0].(type) {
		case SliceV:
			return bvConst(64, uint64(x.cp))
		case StructV:
			return bvConst(64, uint64(len(x)))
		case *ChanObj:
			if x == nil {
				return bvConst(64, 0)
			}
			return bvConst(64, uint64(x.size))
		}
	case "append":
		a := args[0].(SliceV)
		var et types.Type
		if ins != nil {
			et = ins.Type().Underlying().(*types.Slice).Elem()
		}
		if s, ok := args[1].(StrV); ok { // append([]byte, string...)
			bs := ex.strToBytes(s, types.NewSlice(types.Typ[types.Uint8]))
			args[1] = bs
		}
		b := args[1].(SliceV)
		if b.n == 0 {
			return a
		}
		if et == nil {
			if a.n > 0 {
				et = a.arr[a.off].typ
			} else {
				et = b.arr[b.off].typ
			}
		}
		if a.n+b.n <= a.cp && !a.isNil() {
			// in place
			for i := 0; i < b.n; i++ {
				ex.store(a.arr[a.off+a.n+i], load(b.arr[b.off+i]))
			}
			return SliceV{arr: a.arr, off: a.off, n: a.n + b.n, cp: a.cp, nonNil: true}
		}
		ncap := a.n + b.n
		if ncap < 2*a.cp {
			ncap = 2 * a.cp
		}
		arr := make([]*Cell, ncap)
		for i := 0; i < a.n; i++ {
			arr[i] = ex.newCellVal(et, load(a.arr[a.off+i]))
		}
		for i := 0; i < b.n; i++ {
			arr[a.n+i] = ex.newCellVal(et, load(b.arr[b.off+i]))
		}
		for i := a.n + b.n; i < ncap; i++ {
			arr[i] = ex.newCell(et)
		}
		return SliceV{arr: arr, n: a.n + b.n, cp: ncap, nonNil: true}
	case "copy":
		dst := args[0].(SliceV)
		var src SliceV
		if s, ok := args[1].(StrV); ok {
			src = ex.strToBytes(s, types.NewSlice(types.Typ[types.Uint8]))
		} else {
			src = args[1].(SliceV)
		}
		n := dst.n
		if src.n < n {
			n = src.n
		}
		vals := make([]Value, n)
		for i := 0; i < n; i++ {
			vals[i] = load(src.arr[src.off+i])
		}
		for i := 0; i < n; i++ {
			ex.store(dst.arr[dst.off+i], vals[i])
		}
		return bvConst(64, uint64(n))
	case "delete":
		m := args[0].(*MapObj)
		if m != nil {
			ex.mapDelete(fr, m, args[1])
		}
		return nil
	case "panic":
		v := args[0].(IfaceV)
		panic(&targetPanic{v: v, msg: ex.describePanic(v, fr), pos: ex.posOf(fr, pos), fn: fr.fn.String()})
	case "recover":
		if fr != nil && fr.caller != nil && fr.caller.panicking {
			fr.caller.panicking = false
			p := fr.caller.panicVal
			fr.caller.panicVal = nil
			return p.v
		}
		return IfaceV{}
	case "print", "println":
		return nil
	case "min", "max":
		r := args[0]
		for _, a := range args[1:] {
			switch rv := r.(type) {
			case *Term:
				av := a.(*Term)
				var lt *Term
				if rv.sort == SFP {
					lt = fpLt(av, rv)
				} else if ins != nil && !isSigned(ins.Type()) {
					lt = bvUlt(av, rv)
				} else {
					lt = bvSlt(av, rv)
				}
				if name == "max" {
					lt = tNot(tOr(lt, tEq(av, rv)))
				}
				r = tIte(lt, av, rv)
			default:
				panic(unsupported{"min/max on " + fmt.Sprintf("%T", r)})
			}
		}
		return r
	case "clear":
		if m, ok := args[0].(*MapObj); ok && m != nil {
			ex.setMapEntries(m, nil)
			return nil
		}
	case "close":
		ex.chanClose(fr, args[0].(*ChanObj), pos)
		return nil
	case "SliceData":
		// unsafe.SliceData: the slice itself stands for the pointer to its first element
		return args[0]
	case "String":
		// unsafe.String(ptr, len) on a pointer obtained from unsafe.SliceData
		if sl, ok := args[0].(SliceV); ok {
			n := ex.concInt(args[1], "unsafe.String len")
			if n > sl.n {
				n = sl.n
			}
			return ex.bytesToStr(SliceV{arr: sl.arr, off: sl.off, n: n, cp: n, nonNil: true}, types.NewSlice(types.Typ[types.Uint8]))
		}
	case "StringData":
		return ex.strToBytes(args[0].(StrV), types.NewSlice(types.Typ[types.Uint8]))
	}
	panic(unsupported{"builtin " + name})
}

// ---------- maps ----------

// keyEq is == on map keys (interface keys compare dynamic types first).
func (ex *Exec) keyEq(a, b Value, kt types.Type) *Term {
	return ex.equal(a, b, kt)
}

func (ex *Exec) checkHashable(fr *Frame, key Value, pos token.Pos) {
	if i, ok := key.(IfaceV); ok && i.typ != nil && !types.Comparable(i.typ) {
		ex.rtPanic(fr, pos, "hash of unhashable type "+typeStr(i.typ))
	}
}

// mapFind returns the index of the entry equal to key, or -1. Symbolic equalities fork the path.
func (ex *Exec) mapFind(fr *Frame, m *MapObj, key Value) int {
	kt := m.typ.Key()
	for i, e := range m.entries {
		eq := ex.keyEq(e.key, key, kt)
		if ex.decide(eq) {
			return i
		}
	}
	return -1
}

func (ex *Exec) mapUpdate(fr *Frame, m *MapObj, key, val Value) {
	ex.checkHashable(fr, key, token.NoPos)
	if m.frozen {
		ex.frozenMapWrite(m, key)
	}
	i := ex.mapFind(fr, m, key)
	ents := make([]MapEntry, len(m.entries), len(m.entries)+1)
	copy(ents, m.entries)
	if i >= 0 {
		ents[i].val = val
	} else {
		ents = append(ents, MapEntry{key, val})
	}
	ex.setMapEntries(m, ents)
}

func (ex *Exec) mapDelete(fr *Frame, m *MapObj, key Value) {
	ex.checkHashable(fr, key, token.NoPos)
	i := ex.mapFind(fr, m, key)
	if i < 0 {
		return
	}
	if m.frozen {
		ex.frozenMapWrite(m, key)
	}
	ents := make([]MapEntry, 0, len(m.entries)-1)
	ents = append(ents, m.entries[:i]...)
	ents = append(ents, m.entries[i+1:]...)
	ex.setMapEntries(m, ents)
}

func (ex *Exec) mapGet(fr *Frame, m *MapObj, key Value) (Value, bool) {
	if m == nil {
		return nil, false
	}
	i := ex.mapFind(fr, m, key)
	if i < 0 {
		return nil, false
	}
	return m.entries[i].val, true
}

func (ex *Exec) lookup(fr *Frame, ins *ssa.Lookup) Value {
	x := ex.val(fr, ins.X)
	if s, ok := x.(StrV); ok { // string index
		return ex.strIndex(fr, s, bvResize(ex.val(fr, ins.Index).(*Term), 64, isSigned(ins.Index.Type())), ins.Pos())
	}
	m := x.(*MapObj)
	ex.noteMapRead(m)
	key := ex.val(fr, ins.Index)
	ex.checkHashable(fr, key, ins.Pos())
	zero := ex.zero(ins.X.Type().Underlying().(*types.Map).Elem())
	if m != nil {
		// symbolic key equalities: do not fork here; the value is resolved lazily when (if) it is used, so that
		// presence-only lookups (`_, ok := m[k]`) stay fork-free
		conds := make([]*Term, len(m.entries))
		symbolic := false
		for i, e := range m.entries {
			conds[i] = ex.keyEq(e.key, key, m.typ.Key())
			if !conds[i].conc {
				symbolic = true
			}
		}
		if symbolic {
			lz := &LazyV{conds: conds, zero: zero}
			ok := termFalse
			for i, e := range m.entries {
				lz.vals = append(lz.vals, e.val)
				ok = tOr(ok, conds[i])
			}
			if ins.CommaOk {
				return TupleV{lz, ok}
			}
			return lz
		}
	}
	v, ok := ex.mapGet(fr, m, key)
	if !ok {
		v = zero
	}
	if ins.CommaOk {
		return TupleV{v, boolConst(ok)}
	}
	return v
}

// LazyV is the not-yet-resolved result of a map lookup with a symbolic key.
type LazyV struct {
	conds []*Term
	vals  []Value
	zero  Value
}

func (ex *Exec) force(lz *LazyV) Value {
	for i, c := range lz.conds {
		if ex.decide(c) {
			return lz.vals[i]
		}
	}
	return lz.zero
}

func (ex *Exec) rangeIter(fr *Frame, x Value, t types.Type) Value {
	switch xv := x.(type) {
	case *MapObj:
		it := &IterV{m: xv, perm: ex.allMapOrders}
		ex.noteMapRead(xv)
		if xv != nil {
			it.keys = append(it.keys, xv.entries...)
		}
		return it
	case StrV:
		return &IterV{isStr: true, str: ex.concStr(xv, "range over string")}
	}
	panic(unsupported{fmt.Sprintf("range over %T", x)})
}

func (ex *Exec) iterNext(fr *Frame, it *IterV, ins *ssa.Next) Value {
	if it.isStr {
		if it.pos >= len(it.str) {
			return TupleV{termFalse, bvConst(64, 0), bvConst(32, 0)}
		}
		r, sz := utf8.DecodeRuneInString(it.str[it.pos:])
		i := it.pos
		it.pos += sz
		return TupleV{termTrue, bvConst(64, uint64(i)), bvConst(32, uint64(r))}
	}
	mt := it.m
	var kz, vz Value
	tup := ins.Type().(*types.Tuple)
	zeroOf := func(i int) Value {
		t := tup.At(i).Type()
		if b, ok := t.(*types.Basic); ok && b.Kind() == types.Invalid {
			return nil
		}
		return ex.zero(t)
	}
	kz, vz = zeroOf(1), zeroOf(2)
	// Go semantics: entries deleted during iteration are not produced; entries are read live.
	for len(it.keys) > 0 {
		pick := 0
		if it.perm && len(it.keys) > 1 {
			pick = ex.choose(len(it.keys), "maporder")
		}
		e := it.keys[pick]
		rest := make([]MapEntry, 0, len(it.keys)-1)
		rest = append(rest, it.keys[:pick]...)
		rest = append(rest, it.keys[pick+1:]...)
		it.keys = rest
		// still present?
		if mt != nil {
			found := -1
			for i, ce := range mt.entries {
				if ex.sameKey(ce.key, e.key) {
					found = i
					break
				}
			}
			if found < 0 {
				continue
			}
			return TupleV{termTrue, e.key, mt.entries[found].val}
		}
	}
	return TupleV{termFalse, kz, vz}
}

// sameKey is identity of key values without forking (used for iteration liveness).
func (ex *Exec) sameKey(a, b Value) bool {
	switch av := a.(type) {
	case *Term:
		bv, ok := b.(*Term)
		if !ok {
			return false
		}
		if av == bv {
			return true
		}
		return av.conc && bv.conc && av.cv == bv.cv && av.sort == bv.sort
	case StrV:
		bv, ok := b.(StrV)
		if !ok {
			return false
		}
		if av.sym != nil || bv.sym != nil {
			return av.sym == bv.sym
		}
		return av.s == bv.s
	case IfaceV:
		bv, ok := b.(IfaceV)
		if !ok {
			return false
		}
		if av.typ == nil || bv.typ == nil {
			return av.typ == nil && bv.typ == nil
		}
		return types.Identical(av.typ, bv.typ) && ex.sameKey(av.v, bv.v)
	case Ptr:
		bv, ok := b.(Ptr)
		return ok && av.c == bv.c
	case StructV:
		bv, ok := b.(StructV)
		if !ok || len(av) != len(bv) {
			return false
		}
		for i := range av {
			if !ex.sameKey(av[i], bv[i]) {
				return false
			}
		}
		return true
	}
	return false
}

func itoa(i int) string { return strconv.Itoa(i) }

// runeStringSym is string(rune) for a symbolic code point (already widened to 64 bits): UTF-8 encoding as byte
// terms, forking on the encoding length; invalid code points give U+FFFD.
func (ex *Exec) runeStringSym(v *Term) Value {
	c := func(x uint64) *Term { return bvConst(64, x) }
	valid := tAnd(bvUle(v, c(0x10FFFF)), tNot(tAnd(bvUle(c(0xD800), v), bvUle(v, c(0xDFFF)))))
	if !ex.decide(valid) {
		return StrV{s: "\uFFFD"}
	}
	b8 := func(t *Term) *Term { return bvResize(t, 8, false) }
	ns := newSymStr(symBytes)
	switch {
	case ex.decide(bvUlt(v, c(0x80))):
		ns.bytes = []*Term{b8(v)}
	case ex.decide(bvUlt(v, c(0x800))):
		ns.bytes = []*Term{b8(bvOr(c(0xC0), bvLShr(v, c(6)))), b8(bvOr(c(0x80), bvAnd(v, c(0x3F))))}
	case ex.decide(bvUlt(v, c(0x10000))):
		ns.bytes = []*Term{b8(bvOr(c(0xE0), bvLShr(v, c(12)))), b8(bvOr(c(0x80), bvAnd(bvLShr(v, c(6)), c(0x3F)))), b8(bvOr(c(0x80), bvAnd(v, c(0x3F))))}
	default:
		ns.bytes = []*Term{b8(bvOr(c(0xF0), bvLShr(v, c(18)))), b8(bvOr(c(0x80), bvAnd(bvLShr(v, c(12)), c(0x3F)))), b8(bvOr(c(0x80), bvAnd(bvLShr(v, c(6)), c(0x3F)))), b8(bvOr(c(0x80), bvAnd(v, c(0x3F))))}
	}
	return StrV{sym: ns}
}
