package main

func main() { runMain() }
