// Path execution state: decisions, path condition, events, per-path bookkeeping.
package main

import (
	"fmt"
	"go/token"
	"go/types"
	"os"
	"path/filepath"
	"regexp"
	"strings"
	"time"

	"golang.org/x/tools/go/ssa"
)

var decTrace = os.Getenv("VERIF_DECTRACE") != ""

type Event struct {
	Kind string // assert | reach | observe | known | cover
	ID   string
	T    *Term // predicted value when symbolic
	Conc string
	Ts   []*Term // multi-term events (symbolic strings)
	KeyTs []*Term // terms filling the placeholders of ID (symbolic map keys)
}

type Input struct {
	Name string
	T    *Term
	Kind string // bool int8.. uint64 float32 float64 choice strlen strfrom
	Strs []string
}

type CounterExample struct {
	Entry    string            `json:"entry"`
	Kind     string            `json:"kind"` // assert | panic | unwind | frozen-write | lockset | deadlock
	ID       string            `json:"id"`
	Msg      string            `json:"msg"`
	Pos      string            `json:"pos,omitempty"`
	Func     string            `json:"func,omitempty"`
	Inputs   map[string]string `json:"inputs"`
	Known    []string          `json:"known,omitempty"`
	Orders   bool              `json:"orders,omitempty"`
	Pauses   []PausePoint      `json:"pauses,omitempty"`
	Prefix   []int             `json:"prefix,omitempty"`
	Mutation string            `json:"mutation,omitempty"`
}

type PathResult struct {
	Outcome  string // OK PANIC UNSUPPORTED UNWIND DEAD ABORT
	Detail   string
	Events   []Event
	EventVal []string // predicted values aligned with Events
	EventID  []string // event ids with symbolic map keys filled in from the model
	Inputs   map[string]string
	HasModel bool
	CEs      []*CounterExample
	Known    []string
	Prefix   []int
	Orders   bool
	Instr    int
	Decis    int
	Panic    *targetPanic
	Concurrent bool // more than one goroutine existed: outcomes other than OK depend on the schedule
}

type Exec struct {
	prog    *ssa.Program
	pkg     *ssa.Package
	solver  *Solver
	solver2 *Solver
	cfg     *Config

	globals   map[*ssa.Global]*Cell
	journal   []undoRec
	journalOn bool

	// per path
	prefix      []int
	taken       []int
	pending     [][]int
	pc          []*Term
	inputs      []*Input
	inputByName map[string]*Input
	events      []Event
	ces         []*CounterExample
	known       []string
	pathInstr   int
	ordersUsed  bool
	allMapOrders bool
	internalN   int
	frozenOn    bool
	frozenHits  []frozenHit
	sharedFrom  int
	sharedOn    bool
	sharedAcc   map[interface{}]*sharedInfo
	sharedOrder []interface{}
	encodesUnlocked int
	encLockGen      int
	nGoroutines int
	deadlocked  bool
	leakCheck   bool
	held        []*Cell // mutex cells currently held (sequential lockset)
	accesses    []access
	sched       *Sched
	entryName   string
	tier        int

	// cumulative
	nInstr     int
	maxInstr   int
	maxDepth   int
	funcsSeen  map[*ssa.Function]bool
	stubsHit   map[string]int
	mapCounter int64
	nAssertQ   int
	nRevived   int
	lastPauses []PausePoint
	nAssertConcTrue, nAssertConcFalse int
	nAssertUnsat int
	nAssertSat int
	nUnknown   int
	natives    map[string]interface{}
	curModel     map[string]uint64
	modelValid   bool
	evalMemo     map[*Term]*Term
	symbols      []*Term
	symSeen      map[*Term]bool
	nEvalSaved   int
	pcHard       bool
	active       *Solver
	intSolver    *Solver
	intPushed    bool
	fallbacks    map[string]*Solver
	fallbackUsed map[string]int
	pathNatives []string
	submatchStub func(re *regexp.Regexp, s StrV) Value
	fprintfHook  func(w IfaceV, s StrV)
	cborHook     func(full string, fn *ssa.Function, args []Value, fr *Frame, pos token.Pos) (Value, bool)
	curFrame     *Frame
	rtypeT, rvalT types.Type
	inited      map[*ssa.Package]bool
	initDepth   int
	initSkipped []string
	targetPkgs  map[string]bool
}

func (ex *Exec) isTargetPkg(p *ssa.Package) bool {
	return p != nil && strings.HasPrefix(p.Pkg.Path(), "go.flow.arcalot.io/pluginsdk") || p != nil && ex.targetPkgs[p.Pkg.Path()]
}

type Config struct {
	Tier        int
	Solver      string
	Timeout     time.Duration
	PrimaryTimeout time.Duration
	CrossSolver string
	MaxInstr    int
	MaxDepth    int
	Verbose     bool
	OpenKnown   map[string]*Finding
}

func newExec(prog *ssa.Program, pkg *ssa.Package, cfg *Config) *Exec {
	ex := &Exec{prog: prog, pkg: pkg, cfg: cfg, globals: map[*ssa.Global]*Cell{}, funcsSeen: map[*ssa.Function]bool{}, stubsHit: map[string]int{},
		maxInstr: cfg.MaxInstr, maxDepth: cfg.MaxDepth, tier: cfg.Tier, natives: map[string]interface{}{}, fallbacks: map[string]*Solver{}, fallbackUsed: map[string]int{}, inited: map[*ssa.Package]bool{}, targetPkgs: map[string]bool{}}
	pt := cfg.Timeout
	if cfg.PrimaryTimeout > 0 && cfg.PrimaryTimeout < pt {
		pt = cfg.PrimaryTimeout
	}
	ex.solver = newSolver(cfg.Solver, pt)
	ex.active = ex.solver
	if cfg.CrossSolver != "" {
		// the second opinion is bounded: z3 is one to two orders of magnitude slower than cvc5 on the floating-point
		// obligations (DESIGN App. A); a cross-check that does not finish is recorded as such, not as agreement
		ct := cfg.Timeout
		if ct > 30*time.Second {
			ct = 30 * time.Second
		}
		ex.solver2 = newSolver(cfg.CrossSolver, ct)
	}
	return ex
}

func (ex *Exec) close() {
	ex.solver.close()
	if ex.solver2 != nil {
		ex.solver2.close()
	}
	for _, fb := range ex.fallbacks {
		fb.close()
	}
	if ex.intSolver != nil {
		ex.intSolver.close()
	}
}

// reviveActive replaces the incremental solver of this path after its process has died (cvc5 exits when a query
// exceeds --tlimit-per): a fresh process gets the path scope and the path condition again. The query that killed it
// is answered "unknown" by the caller and goes through the fallback chain.
func (ex *Exec) reviveActive() {
	old := ex.active
	if old == nil || !old.dead {
		return
	}
	old.close()
	ns := newSolver(old.kind, old.timeout)
	ns.queries, ns.dur, ns.nUnknown = old.queries, old.dur, old.nUnknown
	ns.push()
	for _, p := range ex.pc {
		ns.assert(p)
	}
	if old == ex.solver {
		ex.solver = ns
	}
	if old == ex.intSolver {
		ex.intSolver = ns
	}
	ex.active = ns
	ex.nRevived++
}

// onActive runs a query on the incremental solver; if the solver process dies the answer is "unknown".
func (ex *Exec) onActive(f func(s *Solver) string) (res string) {
	if ex.active != nil && ex.active.dead {
		ex.reviveActive() // died outside a guarded query (while reading a model, say)
	}
	defer func() {
		if r := recover(); r != nil {
			if _, ok := r.(solverDied); ok && ex.active != nil && ex.active.dead {
				ex.reviveActive()
				res = "unknown"
				return
			}
			panic(r)
		}
	}()
	return f(ex.active)
}

func (ex *Exec) assertPC(t *Term) {
	if t.conc {
		return
	}
	if ex.active != nil && ex.active.dead {
		ex.reviveActive()
	}
	ex.pc = append(ex.pc, t)
	ex.collectSyms(t)
	if t.hard {
		ex.pcHard = true
	}
	ex.active.assert(t)
}

// switchToInt makes the integer-encoding back end the incremental solver of the rest of this path: the path
// condition so far is replayed into it once.
func (ex *Exec) switchToInt() {
	if ex.cfg.Solver != "cvc5" || ex.active != ex.solver || os.Getenv("VERIF_NOINT") != "" {
		return
	}
	if ex.intSolver == nil || ex.intSolver.dead {
		ex.intSolver = newSolver("cvc5-int", ex.cfg.Timeout)
	}
	ex.intSolver.push()
	ex.intPushed = true
	for _, p := range ex.pc {
		ex.intSolver.assert(p)
	}
	ex.active = ex.intSolver
}

// hardPath reports whether the query involves arithmetic that the bit-blasting back end handles badly; such
// queries go to the integer-encoding back end first.
func (ex *Exec) hardPath(goal *Term) bool {
	if goal != nil && goal.hard {
		return true
	}
	return ex.pcHard
}

func (ex *Exec) feasible(t *Term) bool {
	ex.prepHard(t)
	ex.collectSyms(t)
	r := ex.onActive(func(s *Solver) string { return s.checkWith(t) })
	if r == "unknown" {
		r, _ = ex.fallbackQuery(t, nil)
	}
	if r == "unknown" {
		ex.nUnknown++
		if dir := os.Getenv("VERIF_DUMP_UNKNOWN"); dir != "" {
			ex.dumpQuery(filepath.Join(dir, fmt.Sprintf("feas-%d.smt2", time.Now().UnixNano())), t)
		}
	}
	return r != "unsat"
}

// fallbackQuery re-asks a query the primary solver could not decide: the whole path condition plus goal is sent
// to the other back ends in turn (cvc5 with the integer encoding of bit-vectors, then z3). Returns the verdict and,
// for sat, the values of want.
func (ex *Exec) fallbackQuery(goal *Term, want []*Term) (string, []uint64) {
	if ex.active == ex.solver && (ex.pcHard || (goal != nil && goal.hard)) {
		// the bit-blaster stalled on arithmetic: the integer encoding takes over for the rest of this path
		defer ex.switchToInt()
	}
	for _, kind := range []string{"cvc5-int", "cvc5", "z3-new", "cvc5-long"} {
		if kind == ex.active.kind {
			continue
		}
		if kind == "cvc5" && ex.cfg.Solver == "cvc5" && ex.active == ex.solver {
			continue
		}
		fb := ex.fallbacks[kind]
		if fb == nil || fb.dead {
			fb = newSolver(kind, ex.cfg.Timeout)
			ex.fallbacks[kind] = fb
		}
		var res string
		var vals []uint64
		func() {
			defer func() {
				if r := recover(); r != nil {
					if _, ok := r.(solverDied); ok {
						res = "unknown"
						return
					}
					panic(r)
				}
			}()
			fb.push()
			for _, p := range ex.pc {
				fb.assert(p)
			}
			if goal != nil {
				fb.assert(goal)
			}
			res = fb.check()
			if res == "sat" && want != nil {
				v, ok := fb.getValues(want)
				if ok {
					vals = v
				} else {
					res = "unknown"
				}
			}
			fb.pop()
		}()
		ex.fallbackUsed[kind+":"+res]++
		if res != "unknown" {
			return res, vals
		}
	}
	return "unknown", nil
}

// decide resolves a branch condition; symbolic conditions fork the exploration.
func (ex *Exec) decide(c *Term) bool {
	if c.conc {
		return c.cv != 0
	}
	i := len(ex.taken)
	if i > 4000 {
		panic(unwindFail{"more than 4000 symbolic decisions on one path (a loop whose trip count depends on a symbolic value)"})
	}
	var d bool
	if i < len(ex.prefix) {
		d = ex.prefix[i] != 0
		ex.modelValid = false
	} else {
		if decTrace && ex.curFrame != nil {
			p := ex.posOf(ex.curFrame, ex.curFrame.curPos)
			fmt.Fprintf(os.Stderr, "DECIDE #%d at %s:%d in %s: %s\n", i, p.Filename, p.Line, shortFn(ex.curFrame.fn.String()), trunc(c.String(), 120))
		}
		var ft, ff bool
		mv, known := ex.evalUnderModel(c)
		switch {
		case known && mv:
			// the current model already satisfies c: only the other side needs the solver
			ex.nEvalSaved++
			ft = true
			ff = ex.feasible(tNot(c))
		case known && !mv:
			ex.nEvalSaved++
			ff = true
			r, m := ex.satWithModel(c)
			ft = r != "unsat"
			if ft {
				ex.setModel(m)
			}
		default:
			r, m := ex.satWithModel(c)
			ft = r != "unsat"
			if ft {
				ex.setModel(m)
				ff = ex.feasible(tNot(c))
			} else {
				// the path condition is satisfiable (invariant), so the other side is
				ff = true
				ex.modelValid = false
			}
		}
		switch {
		case ft && ff:
			alt := make([]int, len(ex.taken)+1)
			copy(alt, ex.taken)
			alt[len(ex.taken)] = 0
			ex.pending = append(ex.pending, alt)
			d = true
		case ft:
			d = true
		case ff:
			d = false
		default:
			panic(assumeFailed{})
		}
	}
	if d {
		ex.taken = append(ex.taken, 1)
		ex.assertPC(c)
	} else {
		ex.taken = append(ex.taken, 0)
		ex.assertPC(tNot(c))
	}
	return d
}

// choose picks one of n alternatives; all are explored.
func (ex *Exec) choose(n int, what string) int {
	if n <= 1 {
		return 0
	}
	i := len(ex.taken)
	var d int
	if i < len(ex.prefix) {
		d = ex.prefix[i]
	} else {
		for k := n - 1; k >= 1; k-- {
			alt := make([]int, len(ex.taken)+1)
			copy(alt, ex.taken)
			alt[len(ex.taken)] = k
			ex.pending = append(ex.pending, alt)
		}
		d = 0
	}
	ex.taken = append(ex.taken, d)
	return d
}

func (ex *Exec) assume(c *Term) {
	if c.conc {
		if c.cv == 0 {
			panic(assumeFailed{})
		}
		return
	}
	// inside a replayed prefix the assumption is known to be satisfiable
	if len(ex.taken) >= len(ex.prefix) {
		if mv, known := ex.evalUnderModel(c); known && mv {
			ex.nEvalSaved++
		} else {
			r, m := ex.satWithModel(c)
			if r == "unsat" {
				panic(assumeFailed{})
			}
			ex.setModel(m)
		}
	} else {
		ex.modelValid = false
	}
	ex.assertPC(c)
}

func (ex *Exec) fresh(name, kind string, sort Sort, w int) *Term {
	if in, ok := ex.inputByName[name]; ok {
		if in.Kind != kind {
			panic(pathAbort{"nondet name reused with a different kind: " + name})
		}
		return in.T
	}
	t := symTerm("in_"+sanitize(name), sort, w)
	in := &Input{Name: name, T: t, Kind: kind}
	ex.inputs = append(ex.inputs, in)
	ex.inputByName[name] = in
	return t
}

func (ex *Exec) freshInternal(name string, sort Sort, w int) *Term {
	ex.internalN++
	return symTerm(fmt.Sprintf("aux_%s_%d", sanitize(name), ex.internalN), sort, w)
}

func sanitize(s string) string {
	var sb strings.Builder
	for _, r := range s {
		switch {
		case r >= 'a' && r <= 'z', r >= 'A' && r <= 'Z', r >= '0' && r <= '9', r == '_':
			sb.WriteRune(r)
		default:
			sb.WriteString(fmt.Sprintf("_%x_", r))
		}
	}
	return sb.String()
}

// model returns the current model of all inputs as name -> printable value, or ok=false.
func (ex *Exec) model(extra []*Term) (mm map[string]string, vv []uint64, okk bool) {
	defer func() {
		if r := recover(); r != nil {
			if _, isD := r.(solverDied); isD {
				mm, vv, okk = nil, nil, false
				return
			}
			panic(r)
		}
	}()
	return ex.model1(extra)
}

func (ex *Exec) model1(extra []*Term) (map[string]string, []uint64, bool) {
	ts := make([]*Term, 0, len(ex.inputs)+len(extra))
	for _, in := range ex.inputs {
		ts = append(ts, in.T)
	}
	ts = append(ts, extra...)
	var vals []uint64
	ok := false
	r := ex.onActive(func(s *Solver) string {
		r := s.check()
		if r == "sat" {
			vals, ok = s.getValues(ts)
		}
		return r
	})
	if r == "unknown" {
		vals, ok = nil, false
	}
	if !ok && r != "unsat" {
		r2, v2 := ex.fallbackQuery(nil, ts)
		if r2 == "sat" {
			vals, ok = v2, true
		}
	}
	if !ok {
		return nil, nil, false
	}
	m := map[string]string{}
	for i, in := range ex.inputs {
		m[in.Name] = fmt.Sprintf("%d", vals[i])
	}
	return m, vals[len(ex.inputs):], true
}

func (ex *Exec) choiceInputs(m map[string]string) {
	// concrete choices are recorded as inputs too (they are in ex.inputs with concrete terms)
}

func (ex *Exec) addEvent(kind, id string, t *Term) {
	ex.events = append(ex.events, Event{Kind: kind, ID: id, T: t})
}

func (ex *Exec) recordCE(kind, id, msg string, pos token.Position, fn string, inputs map[string]string) *CounterExample {
	ce := &CounterExample{Entry: ex.entryName, Kind: kind, ID: id, Msg: msg, Func: fn, Inputs: inputs, Known: append([]string{}, ex.known...), Orders: ex.ordersUsed}
	if pos.IsValid() {
		ce.Pos = fmt.Sprintf("%s:%d", pos.Filename, pos.Line)
	}
	ce.Prefix = append([]int{}, ex.taken...)
	if ex.sched != nil && len(ex.sched.pauses) > 0 {
		// the failure may depend on the schedule: the native confirmation inserts pauses at the preemption points
		ce.Pauses = append([]PausePoint{}, ex.sched.pauses...)
	} else if ex.sched == nil && len(ex.lastPauses) > 0 {
		ce.Pauses = append([]PausePoint{}, ex.lastPauses...)
	}
	ex.ces = append(ex.ces, ce)
	return ce
}

// runPath executes one path of entry fn following prefix, returning its result and newly discovered prefixes.
func (ex *Exec) runPath(fn *ssa.Function, prefix []int) (res *PathResult, pending [][]int) {
	ex.prefix, ex.taken, ex.pending, ex.pc = prefix, nil, nil, nil
	ex.curModel, ex.modelValid, ex.evalMemo = nil, false, map[*Term]*Term{}
	ex.symbols, ex.symSeen = nil, map[*Term]bool{}
	ex.pcHard = false
	ex.inputs, ex.inputByName = nil, map[string]*Input{}
	ex.events, ex.ces, ex.known = nil, nil, nil
	ex.pathInstr, ex.ordersUsed, ex.allMapOrders, ex.internalN = 0, false, false, 0
	ex.frozenOn, ex.frozenHits, ex.held, ex.accesses = false, nil, nil, nil
	ex.sharedFrom = 0
	ex.sharedOn, ex.sharedAcc, ex.sharedOrder = false, nil, nil
	ex.encodesUnlocked = 0
	ex.encLockGen = 0
	ex.deadlocked, ex.leakCheck = false, false
	ex.sched = nil
	ex.lastPauses = nil
	for _, k := range ex.pathNatives {
		delete(ex.natives, k)
	}
	ex.pathNatives = nil
	ex.submatchStub, ex.fprintfHook, ex.cborHook = nil, nil, nil
	ex.entryName = fn.Name()
	jstart := len(ex.journal)
	ex.journalOn = true
	ex.solver.push()
	ex.active = ex.solver
	ex.intPushed = false
	res = &PathResult{}
	defer func() {
		ex.journalOn = false
		ex.rollback(jstart)
		if !ex.solver.dead {
			ex.solver.pop()
		}
		if ex.intPushed && ex.intSolver != nil && !ex.intSolver.dead {
			ex.intSolver.pop()
		}
		ex.active = ex.solver
	}()
	func() {
		defer func() {
			if r := recover(); r != nil {
				switch r := r.(type) {
				case *targetPanic:
					res.Outcome = "PANIC"
					res.Detail = fmt.Sprintf("%s at %s:%d in %s", r.msg, r.pos.Filename, r.pos.Line, shortFn(r.fn))
					res.Panic = r
				case assumeFailed:
					res.Outcome = "DEAD"
				case unsupported:
					res.Outcome = "UNSUPPORTED"
					res.Detail = r.what
				case unwindFail:
					res.Outcome = "UNWIND"
					res.Detail = r.what
				case pathAbort:
					res.Outcome = "ABORT"
					res.Detail = r.why
				case solverDied:
					res.Outcome = "ABORT"
					res.Detail = r.msg
				default:
					panic(r)
				}
			}
		}()
		if ex.cfg.Verbose {
			fmt.Printf("  path prefix=%v\n", prefix)
		}
		ex.runEntry(fn)
		res.Outcome = "OK"
		if ex.deadlocked {
			res.Outcome = "DEADLOCK"
			if len(ex.ces) > 0 {
				res.Detail = ex.ces[len(ex.ces)-1].Msg
			}
		}
	}()
	if ex.solver.dead {
		// the primary solver's process ended during the last query of the path (cvc5 exits on its time limit); every
		// query of the path has been answered (by it or by the fallback chain), so the path stands: replace the
		// process for the rest of this worker's paths
		if ex.active == ex.solver {
			ex.reviveActive()
		} else {
			old := ex.solver
			old.close()
			ns := newSolver(old.kind, old.timeout)
			ns.queries, ns.dur, ns.nUnknown = old.queries, old.dur, old.nUnknown
			ns.push()
			ex.solver = ns
		}
	}
	res.Concurrent = ex.nGoroutines > 1
	if schedTrace {
		np := 0
		if ex.sched != nil {
			np = len(ex.sched.pauses)
		}
		fmt.Fprintf(os.Stderr, "PATHEND %s %s pauses=%d\n", res.Outcome, trunc(res.Detail, 80), np)
	}
	res.Prefix = append([]int{}, ex.taken...)
	res.Orders = ex.ordersUsed
	res.Instr = ex.pathInstr
	res.Decis = len(ex.taken)
	res.Known = ex.known
	res.Events = ex.events
	if res.Outcome == "DEAD" || res.Outcome == "ABORT" {
		res.CEs = ex.ces
		return res, ex.pending
	}
	// witness: one model of the final path condition + predicted observables
	var symEv []*Term
	for _, e := range ex.events {
		if e.T != nil && !e.T.conc {
			symEv = append(symEv, e.T)
		}
		for _, t := range e.Ts {
			if !t.conc {
				symEv = append(symEv, t)
			}
		}
		for _, t := range e.KeyTs {
			if !t.conc {
				symEv = append(symEv, t)
			}
		}
	}
	m, vals, ok := ex.model(symEv)
	if ok {
		res.HasModel = true
		res.Inputs = m
		k := 0
		next := func(t *Term) uint64 {
			if t.conc {
				return t.cv
			}
			k++
			return vals[k-1]
		}
		for _, e := range ex.events {
			res.EventVal = append(res.EventVal, evalEvent(e, next))
			id := e.ID
			for _, t := range e.KeyTs {
				bits := next(t)
				switch {
				case strings.Contains(id, "\x02") && (!strings.Contains(id, "\x03") || strings.Index(id, "\x02") < strings.Index(id, "\x03")):
					id = strings.Replace(id, "\x02", fmtVal(t, bits), 1)
				case strings.Contains(id, "\x03"):
					a := strings.Index(id, "\x03")
					b := a + 1 + strings.Index(id[a+1:], "\x03")
					strs := strings.Split(id[a+1:b], "\x00")
					r := "s:?"
					if int(bits) < len(strs) {
						r = "s:" + strs[bits]
					}
					id = id[:a] + r + id[b+1:]
				}
			}
			res.EventID = append(res.EventID, id)
		}
	}
	if res.Outcome == "PANIC" || res.Outcome == "UNWIND" {
		kind := "panic"
		if res.Outcome == "UNWIND" {
			kind = "unwind"
		}
		var pos token.Position
		fnn := ""
		if res.Panic != nil {
			pos, fnn = res.Panic.pos, res.Panic.fn
		}
		ex.recordCE(kind, kind+":"+shortFn(fnn), res.Detail, pos, fnn, m)
	}
	res.CEs = ex.ces
	return res, ex.pending
}

func fmtVal(t *Term, v uint64) string {
	switch t.sort {
	case SBool:
		if v != 0 {
			return "true"
		}
		return "false"
	case SFP:
		if t.w == 64 && (v>>52)&0x7ff == 0x7ff && v&((1<<52)-1) != 0 {
			return "fp64:NaN"
		}
		if t.w == 32 && (v>>23)&0xff == 0xff && v&((1<<23)-1) != 0 {
			return "fp32:NaN"
		}
		return fmt.Sprintf("fp%d:%#x", t.w, v)
	}
	return fmt.Sprintf("bv%d:%d", t.w, v)
}

func (ex *Exec) runEntry(fn *ssa.Function) {
	ex.runScheduled(fn)
}

// ensureInit runs the initialiser of package p once per worker (concretely, outside the journal), tolerating
// instructions the engine cannot execute: those are skipped and what they define is poisoned.
func (ex *Exec) ensureInit(p *ssa.Package) {
	if p == nil || ex.inited[p] {
		return
	}
	ex.inited[p] = true
	fn := p.Func("init")
	if fn == nil || fn.Blocks == nil {
		return
	}
	if skipInitPkgs[p.Pkg.Path()] {
		return
	}
	savedJ := ex.journalOn
	ex.journalOn = false
	savedInstr := ex.pathInstr
	savedMax := ex.maxInstr
	ex.maxInstr = 1 << 40
	ex.initDepth++
	defer func() {
		ex.initDepth--
		ex.journalOn = savedJ
		ex.pathInstr = savedInstr
		ex.maxInstr = savedMax
	}()
	fr := &Frame{fn: fn, env: make(map[ssa.Value]Value, 64), tolerant: true}
	for _, l := range fn.Locals {
		fr.env[l] = Ptr{ex.newCell(derefType(l.Type()))}
	}
	fr.block = fn.Blocks[0]
	for fr.block != nil {
		ex.runFrame(fr)
	}
}

var skipInitPkgs = map[string]bool{
	"runtime": true, "reflect": true, "sync": true, "os": true, "syscall": true, "time": true, "fmt": true, "regexp": true, "regexp/syntax": true,
	"internal/poll": true, "internal/cpu": true, "internal/godebug": true, "log": true, "io/fs": true, "encoding/json": true,
	"github.com/fxamacker/cbor/v2": true, "internal/reflectlite": true, "sync/atomic": true, "unsafe": true, "internal/bytealg": true,
	"math/rand": true, "math/big": true, "testing": true, "flag": true, "encoding/base64": true, "encoding/binary": true, "bufio": true,
	"golang.org/x/text/cases": true, "golang.org/x/text/language": true, "gopkg.in/yaml.v3": true, "go/format": true,
}

func evalEvent(e Event, next func(*Term) uint64) string {
	if e.Ts != nil {
		switch e.Kind {
		case "observe-bytes":
			bs := make([]byte, len(e.Ts))
			for i, t := range e.Ts {
				bs[i] = byte(next(t))
			}
			return "s:" + string(bs)
		case "observe-strlen":
			return "s:" + strings.Repeat("x", int(next(e.Ts[0])))
		case "observe-sdec":
			t := e.Ts[0]
			return "s:" + fmt.Sprint(sext(next(t), t.w))
		case "observe-udec":
			return "s:" + fmt.Sprint(next(e.Ts[0]))
		}
		return "?"
	}
	if e.T == nil {
		return e.Conc
	}
	bits := next(e.T)
	if e.Kind == "observe-str" {
		strs := strings.Split(e.Conc, "\x00")
		if int(bits) < len(strs) {
			return "s:" + strs[bits]
		}
		return "s:?"
	}
	return fmtVal(e.T, bits)
}
