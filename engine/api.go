// Harness API intrinsics: nondet*, verif*, fork-free boolean helpers.
package main

import (
	"fmt"
	"go/token"
	"go/types"
	"os"
	"sort"
	"strings"

	"golang.org/x/tools/go/ssa"
)

func (ex *Exec) concName(v Value) string {
	s, ok := v.(StrV)
	if !ok || s.sym != nil {
		panic(pathAbort{"harness API name/id must be a concrete string"})
	}
	return s.s
}

var nondetKinds = map[string]struct {
	kind string
	sort Sort
	w    int
}{
	"nondetBool": {"bool", SBool, 0}, "nondetInt8": {"int8", SBV, 8}, "nondetInt16": {"int16", SBV, 16}, "nondetInt32": {"int32", SBV, 32},
	"nondetInt64": {"int64", SBV, 64}, "nondetInt": {"int", SBV, 64}, "nondetUint8": {"uint8", SBV, 8}, "nondetUint16": {"uint16", SBV, 16},
	"nondetUint32": {"uint32", SBV, 32}, "nondetUint64": {"uint64", SBV, 64}, "nondetUint": {"uint", SBV, 64},
	"nondetFloat32": {"float32", SFP, 32}, "nondetFloat64": {"float64", SFP, 64},
}

func (ex *Exec) apiIntrinsic(name string, fn *ssa.Function, args []Value, fr *Frame, pos token.Pos) (Value, bool) {
	if k, ok := nondetKinds[name]; ok {
		return ex.fresh(ex.concName(args[0]), k.kind, k.sort, k.w), true
	}
	switch name {
	case "nondetChoice":
		nm := ex.concName(args[0])
		n := ex.concInt(args[1], "nondetChoice n")
		if in, ok := ex.inputByName[nm]; ok {
			return in.T, true
		}
		d := ex.choose(n, nm)
		t := bvConst(64, uint64(d))
		in := &Input{Name: nm, T: t, Kind: "choice"}
		ex.inputs = append(ex.inputs, in)
		ex.inputByName[nm] = in
		return t, true
	case "nondetStringFrom":
		nm := ex.concName(args[0])
		sl := args[1].(SliceV)
		strs := make([]string, sl.n)
		for i := 0; i < sl.n; i++ {
			strs[i] = ex.concName(load(sl.arr[sl.off+i]))
		}
		if len(strs) == 0 {
			panic(pathAbort{"nondetStringFrom without alternatives"})
		}
		if len(strs) == 1 {
			return StrV{s: strs[0]}, true
		}
		idx := ex.fresh(nm, "strfrom", SBV, 32)
		ex.inputByName[nm].Strs = strs
		ex.assume(bvUlt(idx, bvConst(32, uint64(len(strs)))))
		ss := newSymStr(symUniverse)
		ss.idx, ss.strs, ss.name = idx, strs, nm
		return StrV{sym: ss}, true
	case "nondetStringLen":
		nm := ex.concName(args[0])
		maxLen := ex.concInt(args[1], "nondetStringLen max")
		l := ex.fresh(nm, "strlen", SBV, 64)
		ex.assume(bvUle(l, bvConst(64, uint64(maxLen))))
		ss := newSymStr(symLen)
		ss.length, ss.name = l, nm
		return StrV{sym: ss}, true
	case "nondetDigits", "nondetBytes":
		nm := ex.concName(args[0])
		n := ex.concInt(args[1], "nondetDigits n")
		ss := newSymStr(symBytes)
		for i := 0; i < n; i++ {
			b := ex.fresh(fmt.Sprintf("%s[%d]", nm, i), "uint8", SBV, 8)
			if name == "nondetDigits" {
				ex.assume(tAnd(bvUle(bvConst(8, '0'), b), bvUle(b, bvConst(8, '9'))))
			} else {
				ex.assume(tAnd(bvUle(bvConst(8, 0x20), b), bvUle(b, bvConst(8, 0x7e))))
			}
			ss.bytes = append(ss.bytes, b)
		}
		if n == 0 {
			return StrV{}, true
		}
		return StrV{sym: ss}, true
	case "verifAssume":
		ex.assume(args[0].(*Term))
		return nil, true
	case "verifAssert":
		ex.doAssert(ex.concName(args[0]), args[1].(*Term), fr, pos)
		return nil, true
	case "verifNativeAssert":
		return nil, true
	case "verifReach":
		ex.addEvent("reach", ex.concName(args[0]), termTrue)
		return nil, true
	case "verifCover":
		// like reach, but only counted (not required on every run)
		ex.addEvent("cover", ex.concName(args[0]), termTrue)
		return nil, true
	case "verifKnown":
		id := ex.concName(args[0])
		c := args[1].(*Term)
		if ex.decide(c) {
			if f, open := ex.cfg.OpenKnown[id]; open && f != nil {
				ex.known = append(ex.known, id)
			}
			return termTrue, true
		}
		return termFalse, true
	case "verifObserve":
		ex.observe(ex.concName(args[0]), args[1], fr)
		return nil, true
	case "vAnd":
		return tAnd(args[0].(*Term), args[1].(*Term)), true
	case "vOr":
		return tOr(args[0].(*Term), args[1].(*Term)), true
	case "vNot":
		return tNot(args[0].(*Term)), true
	case "vImplies":
		return tImplies(args[0].(*Term), args[1].(*Term)), true
	case "vIff":
		return tEq(args[0].(*Term), args[1].(*Term)), true
	case "vIteBool":
		return tIte(args[0].(*Term), args[1].(*Term), args[2].(*Term)), true
	case "vIteInt64", "vIteFloat64":
		return tIte(args[0].(*Term), args[1].(*Term), args[2].(*Term)), true
	case "verifTier":
		return bvConst(64, uint64(ex.tier)), true
	case "verifAllMapOrders":
		ex.allMapOrders = args[0].(*Term).cv != 0
		if ex.allMapOrders {
			ex.ordersUsed = true
		}
		return nil, true
	case "verifDeepEqual":
		return ex.deepEqual(args[0], args[1], 0), true
	case "verifRegister":
		return nil, true
	case "verifFreeze":
		ex.freeze(args[0], 1)
		return nil, true
	case "verifFreezeSchema":
		ex.freeze(args[0], 2)
		return nil, true
	case "verifFreezeGlobals":
		ex.freezeGlobals()
		return nil, true
	case "verifSharedBegin":
		ex.freeze(args[0], 2)
		ex.freezeGlobals()
		ex.sharedFrom = len(ex.frozenHits)
		ex.sharedOn = true
		return nil, true
	case "verifConcurrently":
		n := ex.concInt(args[0], "verifConcurrently n")
		for i := 0; i < n; i++ {
			ex.callValue(args[1].(*FuncV), []Value{bvConst(64, uint64(i))}, fr, pos)
		}
		return nil, true
	case "verifSharedCheck":
		id := ex.concName(args[0])
		var lines []string
		seen := map[string]bool{}
		for _, h := range ex.frozenHits[ex.sharedFrom:] {
			if h.level != 2 || h.locks > 0 {
				continue
			}
			l := h.label + " written at " + h.where
			if !seen[l] {
				seen[l] = true
				lines = append(lines, l)
			}
		}
		// Eraser: a location written after the schema became shared must have a common lock over all its accesses
		for _, k := range ex.sharedOrder {
			inf := ex.sharedAcc[k]
			if !inf.written || len(inf.lockset) > 0 || len(inf.unlocked) == 0 {
				continue
			}
			l := inf.label + " written at " + inf.writeAt + " and " + strings.Join(inf.unlocked, ", ") + " with no lock held"
			dup := false
			for _, x := range lines {
				if strings.HasPrefix(x, inf.label+" written at") {
					dup = true
				}
			}
			if !dup && !seen[l] {
				seen[l] = true
				lines = append(lines, l)
			}
		}
		ex.sharedOn = false
		ex.addEvent("sharedcheck", id, nil)
		if len(lines) > 0 {
			m, _, _ := ex.model(nil)
			ex.recordCE("sharedwrite", id, "shared state written without a lock: "+strings.Join(lines, "; "), ex.posOf(fr, pos), "", m)
		}
		return nil, true
	case "verifFrozenWrites":
		return bvConst(64, uint64(len(ex.frozenHits))), true
	case "verifIsSymbolicEngine":
		return termTrue, true
	case "verifConcretize":
		// fork over the alternatives of a universe string (cheap way to share harness code)
		return StrV{s: ex.concStr(args[0].(StrV), "verifConcretize")}, true
	case "verifNewPipe", "verifPipeGarbage", "verifPipeFailReads", "verifEncodesUnlocked", "verifEncodeLockBegin", "verifEncodeLockCheck":
		return ex.atpAPI(name, args, fr, pos)
	case "verifLeakCheck":
		ex.leakCheck = args[0].(*Term).cv != 0
		return nil, true
	case "verifSpawn", "verifSchedBound", "verifSchedFreeBound", "verifSchedQuiet", "verifSettle", "verifYield", "verifBlockUntil", "verifSchedEvent":
		return ex.schedAPI(name, args, fr, pos), true
	}
	return nil, false
}

func (ex *Exec) doAssert(id string, c *Term, fr *Frame, pos token.Pos) {
	ex.addEvent("assert", id, c)
	if c.conc {
		if c.cv != 0 {
			ex.nAssertConcTrue++
		} else {
			ex.nAssertConcFalse++
		}
		if c.cv == 0 {
			m, _, _ := ex.model(nil)
			ex.recordCE("assert", id, "assertion "+id+" is false on this path", ex.posOf(fr, pos), "", m)
		}
		return
	}
	inPrefix := len(ex.taken) < len(ex.prefix)
	_ = inPrefix
	ex.nAssertQ++
	ex.prepHard(c)
	ex.collectSyms(c)
	var m map[string]string
	ts := make([]*Term, len(ex.inputs))
	for i, in := range ex.inputs {
		ts[i] = in.T
	}
	r := ex.onActive(func(s *Solver) string {
		s.push()
		s.assert(tNot(c))
		r := s.check()
		if r == "sat" {
			vals, ok := s.getValues(ts)
			if ok {
				m = map[string]string{}
				for i, in := range ex.inputs {
					m[in.Name] = fmt.Sprintf("%d", vals[i])
				}
			}
		}
		s.pop()
		return r
	})
	if r == "unknown" {
		m = nil
	}
	if r == "unknown" {
		var vals []uint64
		r, vals = ex.fallbackQuery(tNot(c), ts)
		if r == "sat" {
			m = map[string]string{}
			for i, in := range ex.inputs {
				m[in.Name] = fmt.Sprintf("%d", vals[i])
			}
		}
	}
	switch r {
	case "unsat":
		ex.nAssertUnsat++
		if ex.solver2 != nil {
			ex.crossCheck(id, c)
		}
	case "sat":
		ex.nAssertSat++
		ex.recordCE("assert", id, "assertion "+id+" can be false", ex.posOf(fr, pos), "", m)
	default:
		ex.nUnknown++
		ex.addEvent("unknown", id, nil)
		if dir := os.Getenv("VERIF_DUMP_UNKNOWN"); dir != "" {
			ex.dumpQuery(fmt.Sprintf("%s/unknown-%s-%d.smt2", dir, sanitize(id), len(ex.pc)), tNot(c))
		}
	}
	// continue under the assertion
	ex.assume(c)
}

func (ex *Exec) crossCheck(id string, c *Term) {
	if ex.solver2.dead {
		ex.solver2 = newSolver(ex.solver2.kind, ex.solver2.timeout)
	}
	s := ex.solver2
	r := "unknown"
	func() {
		defer func() {
			if x := recover(); x != nil {
				if _, ok := x.(solverDied); !ok {
					panic(x)
				}
			}
		}()
		s.push()
		for _, p := range ex.pc {
			s.assert(p)
		}
		s.assert(tNot(c))
		r = s.check()
		s.pop()
	}()
	if r == "unknown" {
		ex.addEvent("crossunknown", id, nil) // the second solver did not finish within its limit: no second opinion
	} else if r != "unsat" {
		ex.addEvent("crossdisagree", id+":"+r, nil)
	} else {
		ex.addEvent("crossagree", id, nil)
	}
}

// ---------- observation: canonical flattening shared with the native side ----------

func normTypeName(s string) string {
	s = strings.ReplaceAll(s, "interface {}", "any")
	s = strings.ReplaceAll(s, "interface{}", "any")
	if i := strings.Index(s, "["); i > 0 && !strings.HasPrefix(s, "map[") && !strings.HasPrefix(s, "[]") && !strings.HasPrefix(s, "*") {
		s = s[:i]
	}
	return s
}

func (ex *Exec) observe(prefix string, v Value, fr *Frame) {
	n0 := len(ex.events)
	ex.flatten(prefix, v, nil, 0, func(name, conc string, t *Term) {
		if strings.HasPrefix(conc, "\x01univ:") {
			ex.events = append(ex.events, Event{Kind: "observe-str", ID: name, T: t, Conc: conc[6:]})
		} else if t != nil {
			ex.events = append(ex.events, Event{Kind: "observe", ID: name, T: t})
		} else {
			ex.events = append(ex.events, Event{Kind: "observe", ID: name, Conc: conc})
		}
	})
	_ = n0
}

func (ex *Exec) flatten(prefix string, v Value, t types.Type, depth int, emit func(name, conc string, t *Term)) {
	if depth > 40 {
		emit(prefix, "<deep>", nil)
		return
	}
	switch x := v.(type) {
	case nil:
		emit(prefix, "nil", nil)
	case *Term:
		emit(prefix, "", x)
	case StrV:
		if x.sym == nil {
			emit(prefix, "s:"+x.s, nil)
			return
		}
		switch x.sym.kind {
		case symUniverse:
			emit(prefix, "\x01univ:"+strings.Join(x.sym.strs, "\x00"), x.sym.idx)
		case symBytes:
			ex.events = append(ex.events, Event{Kind: "observe-bytes", ID: prefix, Ts: x.sym.bytes})
		case symLen:
			ex.events = append(ex.events, Event{Kind: "observe-strlen", ID: prefix, Ts: []*Term{x.sym.length}})
		case symDec:
			k := "observe-udec"
			if x.sym.signed {
				k = "observe-sdec"
			}
			ex.events = append(ex.events, Event{Kind: k, ID: prefix, Ts: []*Term{x.sym.val}})
		case symConcat:
			if bs, ok := ex.asBytes(x); ok {
				ex.events = append(ex.events, Event{Kind: "observe-bytes", ID: prefix, Ts: bs})
			} else {
				emit(prefix, "<opaque-string>", nil)
			}
		default:
			emit(prefix, "<opaque-string>", nil)
		}
	case IfaceV:
		if x.typ == nil {
			emit(prefix, "nil", nil)
			return
		}
		if rt, ok := x.v.(RType); ok {
			emit(prefix+".type", "reflect.Type", nil)
			if depth == 0 {
				emit(prefix, normTypeName(typeStr(rt.t)), nil)
			} else {
				emit(prefix, "<reflect.Type>", nil)
			}
			return
		}
		emit(prefix+".type", normTypeName(typeStr(x.typ)), nil)
		ex.flatten(prefix, x.v, x.typ, depth+1, emit)
	case Ptr:
		if x.c == nil {
			emit(prefix, "nil", nil)
			return
		}
		if _, isStruct := x.c.typ.Underlying().(*types.Struct); isStruct && depth > 6 {
			emit(prefix, "<ptr>", nil)
			return
		}
		ex.flatten(prefix, load(x.c), x.c.typ, depth+1, emit)
	case SliceV:
		emit(prefix+".len", "", bvConst(64, uint64(x.n)))
		for i := 0; i < x.n; i++ {
			ex.flatten(fmt.Sprintf("%s[%d]", prefix, i), load(x.arr[x.off+i]), x.arr[x.off+i].typ, depth+1, emit)
		}
	case StructV:
		if t != nil {
			if st, ok := t.Underlying().(*types.Struct); ok {
				if isOpaqueType(t) {
					emit(prefix, "<opaque>", nil)
					return
				}
				for i := range x {
					ex.flatten(prefix+"."+st.Field(i).Name(), x[i], st.Field(i).Type(), depth+1, emit)
				}
				return
			}
			if at, ok := t.Underlying().(*types.Array); ok {
				emit(prefix+".len", "", bvConst(64, uint64(len(x))))
				for i := range x {
					ex.flatten(fmt.Sprintf("%s[%d]", prefix, i), x[i], at.Elem(), depth+1, emit)
				}
				return
			}
		}
		for i := range x {
			ex.flatten(fmt.Sprintf("%s.%d", prefix, i), x[i], nil, depth+1, emit)
		}
	case *MapObj:
		if x == nil {
			emit(prefix+".len", "", bvConst(64, 0))
			return
		}
		emit(prefix+".len", "", bvConst(64, uint64(len(x.entries))))
		type kv struct {
			k string
			e MapEntry
		}
		var kvs []kv
		symbolic := false
		for _, e := range x.entries {
			ks, ok := ex.keyString(e.key)
			if !ok {
				symbolic = true
				break
			}
			kvs = append(kvs, kv{ks, e})
		}
		if symbolic {
			// keys contain solver variables: the entry names carry placeholders that are filled in from the model
			for _, e := range x.entries {
				ks := ex.keyTemplate(e.key)
				first := len(ex.events)
				ex.flatten(prefix+"{"+ks.text+"}", e.val, x.typ.Elem(), depth+1, emit)
				for i := first; i < len(ex.events); i++ {
					ex.events[i].KeyTs = append(append([]*Term{}, ks.terms...), ex.events[i].KeyTs...)
				}
			}
			return
		}
		sort.Slice(kvs, func(i, j int) bool { return kvs[i].k < kvs[j].k })
		for _, e := range kvs {
			ex.flatten(prefix+"{"+e.k+"}", e.e.val, x.typ.Elem(), depth+1, emit)
		}
	case *FuncV:
		if x == nil {
			emit(prefix, "nil", nil)
		} else {
			emit(prefix, "func", nil)
		}
	case *ChanObj:
		emit(prefix, "chan", nil)
	case RVal:
		emit(prefix, "<reflect.Value>", nil)
	case NativeV:
		emit(prefix, "<opaque>", nil)
	case TupleV:
		for i := range x {
			ex.flatten(fmt.Sprintf("%s.%d", prefix, i), x[i], nil, depth+1, emit)
		}
	default:
		emit(prefix, fmt.Sprintf("<%T>", v), nil)
	}
}

// keyString renders a concrete map key canonically (same format as the native side).
func (ex *Exec) keyString(k Value) (string, bool) {
	switch x := k.(type) {
	case *Term:
		if !x.conc {
			return "", false
		}
		switch x.sort {
		case SBool:
			if x.cv != 0 {
				return "true", true
			}
			return "false", true
		case SFP:
			return fmt.Sprintf("fp%d:%#x", x.w, x.cv), true
		}
		return fmt.Sprintf("bv%d:%d", x.w, x.cv), true
	case StrV:
		if x.sym != nil {
			return "", false
		}
		return "s:" + x.s, true
	case IfaceV:
		if x.typ == nil {
			return "nil", true
		}
		s, ok := ex.keyString(x.v)
		return normTypeName(typeStr(x.typ)) + "/" + s, ok
	case StructV:
		parts := make([]string, len(x))
		for i := range x {
			s, ok := ex.keyString(x[i])
			if !ok {
				return "", false
			}
			parts[i] = s
		}
		return "{" + strings.Join(parts, ",") + "}", true
	case Ptr:
		return fmt.Sprintf("ptr:%p", x.c), true
	}
	return "", false
}

// deepEqual is structural equality as one term: flattenings are equal (NaN equals NaN, nil slice equals empty).
func (ex *Exec) deepEqual(a, b Value, depth int) *Term {
	if depth > 40 {
		panic(unsupported{"verifDeepEqual too deep"})
	}
	switch x := a.(type) {
	case nil:
		return boolConst(b == nil)
	case *Term:
		y, ok := b.(*Term)
		if !ok || y.sort != x.sort || y.w != x.w {
			return termFalse
		}
		return tSame(x, y)
	case StrV:
		y, ok := b.(StrV)
		if !ok {
			return termFalse
		}
		return ex.strEq(x, y)
	case IfaceV:
		y, ok := b.(IfaceV)
		if !ok {
			return termFalse
		}
		if x.typ == nil || y.typ == nil {
			return boolConst(x.typ == nil && y.typ == nil)
		}
		if !types.Identical(x.typ, y.typ) {
			return termFalse
		}
		return ex.deepEqual(x.v, y.v, depth+1)
	case Ptr:
		y, ok := b.(Ptr)
		if !ok {
			return termFalse
		}
		if x.c == nil || y.c == nil {
			return boolConst(x.c == nil && y.c == nil)
		}
		if x.c == y.c {
			return termTrue
		}
		return ex.deepEqual(load(x.c), load(y.c), depth+1)
	case SliceV:
		y, ok := b.(SliceV)
		if !ok || x.n != y.n {
			return termFalse
		}
		r := termTrue
		for i := 0; i < x.n; i++ {
			r = tAnd(r, ex.deepEqual(load(x.arr[x.off+i]), load(y.arr[y.off+i]), depth+1))
		}
		return r
	case StructV:
		y, ok := b.(StructV)
		if !ok || len(x) != len(y) {
			return termFalse
		}
		r := termTrue
		for i := range x {
			r = tAnd(r, ex.deepEqual(x[i], y[i], depth+1))
		}
		return r
	case *MapObj:
		y, ok := b.(*MapObj)
		if !ok {
			return termFalse
		}
		nx, ny := 0, 0
		if x != nil {
			nx = len(x.entries)
		}
		if y != nil {
			ny = len(y.entries)
		}
		if nx != ny {
			return termFalse
		}
		r := termTrue
		for i := 0; i < nx; i++ {
			// find the same key in y: keys may be symbolic scalars => disjunction
			found := termFalse
			for j := 0; j < ny; j++ {
				keq := ex.deepEqual(x.entries[i].key, y.entries[j].key, depth+1)
				if keq.conc && keq.cv == 0 {
					continue
				}
				found = tOr(found, tAnd(keq, ex.deepEqual(x.entries[i].val, y.entries[j].val, depth+1)))
			}
			r = tAnd(r, found)
		}
		return r
	case *FuncV:
		y, ok := b.(*FuncV)
		return boolConst(ok && (x == nil) == (y == nil))
	case RType:
		y, ok := b.(RType)
		return boolConst(ok && types.Identical(x.t, y.t))
	case NativeV:
		y, ok := b.(NativeV)
		return boolConst(ok && x.v == y.v)
	}
	panic(unsupported{fmt.Sprintf("verifDeepEqual on %T", a)})
}

type keyTmpl struct {
	text  string
	terms []*Term
}

// keyTemplate renders a map key whose scalar parts may be symbolic; each symbolic part becomes the placeholder
// "\x02" that is replaced by the model value (in order of terms).
func (ex *Exec) keyTemplate(k Value) keyTmpl {
	switch x := k.(type) {
	case *Term:
		if x.conc {
			s, _ := ex.keyString(x)
			return keyTmpl{text: s}
		}
		return keyTmpl{text: "\x02", terms: []*Term{x}}
	case IfaceV:
		if x.typ == nil {
			return keyTmpl{text: "nil"}
		}
		in := ex.keyTemplate(x.v)
		return keyTmpl{text: normTypeName(typeStr(x.typ)) + "/" + in.text, terms: in.terms}
	case StrV:
		if x.sym != nil && x.sym.kind == symUniverse {
			return keyTmpl{text: "\x03" + strings.Join(x.sym.strs, "\x00") + "\x03", terms: []*Term{x.sym.idx}}
		}
	}
	s, ok := ex.keyString(k)
	if !ok {
		return keyTmpl{text: "<symbolic-key>"}
	}
	return keyTmpl{text: s}
}

// dumpQuery writes the current path condition plus goal as a standalone SMT-LIB2 script (debugging aid).
func (ex *Exec) dumpQuery(path string, goal *Term) {
	f, err := os.Create(path)
	if err != nil {
		return
	}
	defer f.Close()
	d := &Solver{kind: "dump", in: f, defined: map[int64]int{}, sided: map[int64]int{}, declared: map[string]int{}}
	d.send("(set-logic ALL)")
	for _, p := range ex.pc {
		d.assert(p)
	}
	d.assert(goal)
	d.send("(check-sat)")
}
