// Terms: SMT-LIB2 expressions with eager constant folding. A fully concrete execution never
// talks to the solver. Sorts: Bool, (_ BitVec w), Float32/Float64.
package main

import (
	"fmt"
	"math"
	"math/bits"
	"strings"
	"sync"
	"sync/atomic"
)

type Sort uint8

const (
	SBool Sort = iota
	SBV
	SFP
)

type Term struct {
	op   string // operator text, or symbol name / literal for leaves
	args []*Term
	sort Sort
	w    int // BV width, or 32/64 for FP
	conc bool
	cv   uint64 // concrete value: bool 0/1, BV bits (masked), FP IEEE bits
	id   int64
	size int // number of nodes (tree size, saturating)
	sym  bool
	hard bool // contains multiply/divide/remainder with a symbolic operand (stalls bit-blasting)
	side []*Term // defining axioms of fresh symbols inside this term (asserted wherever the term is used)
}

var termCounter int64

func newTerm(op string, sort Sort, w int, args ...*Term) *Term {
	sz := 1
	hard := false
	for _, a := range args {
		sz += a.size
		if sz > 1<<20 {
			sz = 1 << 20
		}
		hard = hard || a.hard
	}
	var side []*Term
	for _, a := range args {
		if len(a.side) > 0 {
			side = append(side, a.side...)
		}
	}
	if len(side) > 8 {
		seen := map[*Term]bool{}
		var u []*Term
		for _, x := range side {
			if !seen[x] {
				seen[x] = true
				u = append(u, x)
			}
		}
		side = u
	}
	switch op {
	case "bvsdiv", "bvsrem", "bvudiv", "bvurem":
		hard = true
	case "bvmul":
		// multiplication by a power of two is a shift
		hard = true
		for _, a := range args {
			if a.conc && a.cv&(a.cv-1) == 0 {
				hard = false
			}
		}
		for _, a := range args {
			hard = hard || a.hard
		}
	}
	return &Term{op: op, args: args, sort: sort, w: w, id: atomic.AddInt64(&termCounter, 1), size: sz, hard: hard, side: side}
}

func mask(w int) uint64 {
	if w >= 64 {
		return ^uint64(0)
	}
	return (uint64(1) << uint(w)) - 1
}

func bvConst(w int, v uint64) *Term {
	v &= mask(w)
	return &Term{op: fmt.Sprintf("(_ bv%d %d)", v, w), sort: SBV, w: w, conc: true, cv: v, size: 1}
}

var termTrue = &Term{op: "true", sort: SBool, conc: true, cv: 1, size: 1}
var termFalse = &Term{op: "false", sort: SBool, conc: true, cv: 0, size: 1}

func boolConst(b bool) *Term {
	if b {
		return termTrue
	}
	return termFalse
}

func fpConst64(f float64) *Term { return fpConstBits(64, math.Float64bits(f)) }
func fpConst32(f float32) *Term { return fpConstBits(32, uint64(math.Float32bits(f))) }
func fpConstBits(w int, b uint64) *Term {
	var s string
	if w == 64 {
		s = fmt.Sprintf("(fp #b%01b #b%011b #b%052b)", b>>63, (b>>52)&0x7ff, b&((1<<52)-1))
	} else {
		b &= 0xffffffff
		s = fmt.Sprintf("(fp #b%01b #b%08b #b%023b)", b>>31, (b>>23)&0xff, b&((1<<23)-1))
	}
	return &Term{op: s, sort: SFP, w: w, conc: true, cv: b, size: 1}
}

func symTerm(name string, sort Sort, w int) *Term {
	t := newTerm(name, sort, w)
	t.sym = true
	return t
}

func sortText(sort Sort, w int) string {
	switch sort {
	case SBool:
		return "Bool"
	case SBV:
		return fmt.Sprintf("(_ BitVec %d)", w)
	default:
		if w == 32 {
			return "(_ FloatingPoint 8 24)"
		}
		return "(_ FloatingPoint 11 53)"
	}
}

func (t *Term) f64() float64 { return math.Float64frombits(t.cv) }
func (t *Term) f32() float32 { return math.Float32frombits(uint32(t.cv)) }
func (t *Term) fval() float64 {
	if t.w == 32 {
		return float64(t.f32())
	}
	return t.f64()
}
func (t *Term) sval() int64 { return sext(t.cv, t.w) }

func sext(v uint64, w int) int64 {
	sh := uint(64 - w)
	return int64(v<<sh) >> sh
}

// String renders the full expression tree (debugging and small terms only).
func (t *Term) String() string {
	if len(t.args) == 0 {
		return t.op
	}
	var sb strings.Builder
	sb.WriteString("(" + t.op)
	for _, a := range t.args {
		sb.WriteString(" " + a.String())
	}
	sb.WriteString(")")
	return sb.String()
}

// ---------- booleans ----------

func tNot(a *Term) *Term {
	if a.conc {
		return boolConst(a.cv == 0)
	}
	if a.op == "not" {
		return a.args[0]
	}
	return newTerm("not", SBool, 0, a)
}
func tAnd(a, b *Term) *Term {
	if a.conc {
		if a.cv == 0 {
			return a
		}
		return b
	}
	if b.conc {
		if b.cv == 0 {
			return b
		}
		return a
	}
	if a == b {
		return a
	}
	return newTerm("and", SBool, 0, a, b)
}
func tOr(a, b *Term) *Term {
	if a.conc {
		if a.cv != 0 {
			return a
		}
		return b
	}
	if b.conc {
		if b.cv != 0 {
			return b
		}
		return a
	}
	if a == b {
		return a
	}
	return newTerm("or", SBool, 0, a, b)
}
func tImplies(a, b *Term) *Term { return tOr(tNot(a), b) }
func tAndN(ts ...*Term) *Term {
	r := termTrue
	for _, t := range ts {
		r = tAnd(r, t)
	}
	return r
}
func tOrN(ts ...*Term) *Term {
	r := termFalse
	for _, t := range ts {
		r = tOr(r, t)
	}
	return r
}

func tEq(a, b *Term) *Term {
	if a == b && a.sort != SFP {
		return termTrue
	}
	if a.sort != b.sort || (a.sort != SBool && a.w != b.w) {
		panic(fmt.Sprintf("tEq sort mismatch %v/%d vs %v/%d: %s = %s", a.sort, a.w, b.sort, b.w, a, b))
	}
	if a.conc && b.conc {
		if a.sort == SFP {
			return boolConst(a.fval() == b.fval())
		}
		return boolConst(a.cv == b.cv)
	}
	if a.sort == SFP {
		return newTerm("fp.eq", SBool, 0, a, b)
	}
	if a.sort == SBool {
		if a.conc {
			if a.cv != 0 {
				return b
			}
			return tNot(b)
		}
		if b.conc {
			if b.cv != 0 {
				return a
			}
			return tNot(a)
		}
	}
	return newTerm("=", SBool, 0, a, b)
}

// tSame is structural identity (bit equality for floats: NaN same as NaN), used by verifDeepEqual.
func tSame(a, b *Term) *Term {
	if a.sort != SFP {
		return tEq(a, b)
	}
	if a.conc && b.conc {
		an, bn := a.fval() != a.fval(), b.fval() != b.fval()
		if an || bn {
			return boolConst(an && bn)
		}
		return boolConst(a.cv == b.cv)
	}
	if a == b {
		return termTrue
	}
	return newTerm("=", SBool, 0, a, b)
}

func tIte(c, a, b *Term) *Term {
	if c.conc {
		if c.cv != 0 {
			return a
		}
		return b
	}
	if a == b {
		return a
	}
	if a.sort == SBool {
		if a.conc && b.conc {
			if a.cv != 0 { // ite(c,true,false)
				return c
			}
			return tNot(c)
		}
	}
	return newTerm("ite", a.sort, a.w, c, a, b)
}

// ---------- bit-vectors ----------

func bvBin(op string, a, b *Term, f func(x, y uint64) uint64) *Term {
	if a.w != b.w {
		panic(fmt.Sprintf("bv width mismatch %s: %d vs %d", op, a.w, b.w))
	}
	if a.conc && b.conc {
		return bvConst(a.w, f(a.cv, b.cv))
	}
	return newTerm(op, SBV, a.w, a, b)
}
func bvAdd(a, b *Term) *Term {
	if a.conc && a.cv == 0 {
		return b
	}
	if b.conc && b.cv == 0 {
		return a
	}
	return bvBin("bvadd", a, b, func(x, y uint64) uint64 { return x + y })
}
func bvSub(a, b *Term) *Term {
	if b.conc && b.cv == 0 {
		return a
	}
	return bvBin("bvsub", a, b, func(x, y uint64) uint64 { return x - y })
}
func bvMul(a, b *Term) *Term {
	if a.conc && a.cv == 1 {
		return b
	}
	if b.conc && b.cv == 1 {
		return a
	}
	return bvBin("bvmul", a, b, func(x, y uint64) uint64 { return x * y })
}
func bvAnd(a, b *Term) *Term { return bvBin("bvand", a, b, func(x, y uint64) uint64 { return x & y }) }
func bvOr(a, b *Term) *Term  { return bvBin("bvor", a, b, func(x, y uint64) uint64 { return x | y }) }
func bvXor(a, b *Term) *Term { return bvBin("bvxor", a, b, func(x, y uint64) uint64 { return x ^ y }) }
func bvNot(a *Term) *Term {
	if a.conc {
		return bvConst(a.w, ^a.cv)
	}
	return newTerm("bvnot", SBV, a.w, a)
}
func bvNeg(a *Term) *Term {
	if a.conc {
		return bvConst(a.w, -a.cv)
	}
	return newTerm("bvneg", SBV, a.w, a)
}

// divModConst introduces the quotient and remainder of the unsigned division of a by the constant c as fresh
// symbols defined by a = q*c + r, r < c, q <= max/c (no wrap-around): a multiplication by a constant instead of a
// division circuit. Memoised per (a, c).
var divMemo sync.Map

type divKey struct {
	a *Term
	c uint64
}
type divRes struct{ q, r *Term }

func divModConst(a *Term, c uint64) (q, r *Term) {
	if v, ok := divMemo.Load(divKey{a, c}); ok {
		dr := v.(divRes)
		return dr.q, dr.r
	}
	id := atomic.AddInt64(&termCounter, 1)
	q = symTerm(fmt.Sprintf("divq_%d", id), SBV, a.w)
	r = symTerm(fmt.Sprintf("divr_%d", id), SBV, a.w)
	cc := bvConst(a.w, c)
	qc := newTerm("bvmul", SBV, a.w, q, cc)
	ax := tAndN(
		bvUle(q, bvConst(a.w, mask(a.w)/c)), // q*c does not wrap
		bvUle(qc, a),                          // so that a - q*c is the true difference
		tEq(r, bvSub(a, qc)),
		bvUlt(r, cc),
	)
	q.side = []*Term{ax}
	r.side = []*Term{ax}
	divMemo.Store(divKey{a, c}, divRes{q, r})
	return q, r
}

func constDivisor(b *Term) (uint64, bool) {
	if !b.conc || b.cv == 0 || b.cv&(b.cv-1) == 0 {
		return 0, false
	}
	return b.cv, true
}

// signedDivMod: Go's truncated division of a by a positive constant c through the unsigned magnitudes.
func signedDivMod(a *Term, c uint64) (q, r *Term) {
	neg := bvSlt(a, bvConst(a.w, 0))
	mag := tIte(neg, bvNeg(a), a)
	qm, rm := divModConst(mag, c)
	return tIte(neg, bvNeg(qm), qm), tIte(neg, bvNeg(rm), rm)
}

// division: caller guarantees divisor != 0 on this path.
func bvSDiv(a, b *Term) *Term {
	w := a.w
	if c, ok := constDivisor(b); ok && !a.conc && sext(c, w) > 0 {
		q, _ := signedDivMod(a, c)
		return q
	}
	return bvBin("bvsdiv", a, b, func(x, y uint64) uint64 {
		sx, sy := sext(x, w), sext(y, w)
		if sy == 0 {
			return 0
		}
		if sy == -1 {
			return uint64(-sx)
		}
		return uint64(sx / sy)
	})
}
func bvSRem(a, b *Term) *Term {
	w := a.w
	if c, ok := constDivisor(b); ok && !a.conc && sext(c, w) > 0 {
		_, r := signedDivMod(a, c)
		return r
	}
	return bvBin("bvsrem", a, b, func(x, y uint64) uint64 {
		sx, sy := sext(x, w), sext(y, w)
		if sy == 0 || sy == -1 {
			return 0
		}
		return uint64(sx % sy)
	})
}
func bvUDiv(a, b *Term) *Term {
	if c, ok := constDivisor(b); ok && !a.conc {
		q, _ := divModConst(a, c)
		return q
	}
	return bvBin("bvudiv", a, b, func(x, y uint64) uint64 {
		if y == 0 {
			return 0
		}
		return x / y
	})
}
func bvURem(a, b *Term) *Term {
	if c, ok := constDivisor(b); ok && !a.conc {
		_, r := divModConst(a, c)
		return r
	}
	return bvBin("bvurem", a, b, func(x, y uint64) uint64 {
		if y == 0 {
			return 0
		}
		return x % y
	})
}
func bvShl(a, b *Term) *Term {
	w := a.w
	return bvBin("bvshl", a, b, func(x, y uint64) uint64 {
		if y >= uint64(w) {
			return 0
		}
		return x << y
	})
}
func bvLShr(a, b *Term) *Term {
	w := a.w
	return bvBin("bvlshr", a, b, func(x, y uint64) uint64 {
		if y >= uint64(w) {
			return 0
		}
		return x >> y
	})
}
func bvAShr(a, b *Term) *Term {
	w := a.w
	return bvBin("bvashr", a, b, func(x, y uint64) uint64 {
		sx := sext(x, w)
		if y >= uint64(w) {
			y = uint64(w - 1)
		}
		return uint64(sx >> y)
	})
}

func bvCmp(op string, a, b *Term, f func(x, y uint64) bool) *Term {
	if a.w != b.w {
		panic(fmt.Sprintf("bv width mismatch %s: %d vs %d", op, a.w, b.w))
	}
	if a.conc && b.conc {
		return boolConst(f(a.cv, b.cv))
	}
	return newTerm(op, SBool, 0, a, b)
}
func bvSlt(a, b *Term) *Term {
	w := a.w
	return bvCmp("bvslt", a, b, func(x, y uint64) bool { return sext(x, w) < sext(y, w) })
}
func bvSle(a, b *Term) *Term {
	w := a.w
	return bvCmp("bvsle", a, b, func(x, y uint64) bool { return sext(x, w) <= sext(y, w) })
}
func bvUlt(a, b *Term) *Term {
	return bvCmp("bvult", a, b, func(x, y uint64) bool { return x < y })
}
func bvUle(a, b *Term) *Term {
	return bvCmp("bvule", a, b, func(x, y uint64) bool { return x <= y })
}

// bvResize converts between widths; signed selects sign extension of the source.
func bvResize(a *Term, w int, signed bool) *Term {
	if w == a.w {
		return a
	}
	if a.conc {
		if signed {
			return bvConst(w, uint64(sext(a.cv, a.w)))
		}
		return bvConst(w, a.cv)
	}
	if w < a.w {
		return newTerm(fmt.Sprintf("(_ extract %d 0)", w-1), SBV, w, a)
	}
	if signed {
		return newTerm(fmt.Sprintf("(_ sign_extend %d)", w-a.w), SBV, w, a)
	}
	return newTerm(fmt.Sprintf("(_ zero_extend %d)", w-a.w), SBV, w, a)
}

// ---------- floating point ----------

const rne = "roundNearestTiesToEven"

func fpRound(w int, f float64) *Term {
	if w == 32 {
		return fpConst32(float32(f))
	}
	return fpConst64(f)
}

func fpArith(op string, a, b *Term, f64 func(x, y float64) float64, f32 func(x, y float32) float32) *Term {
	if a.w != b.w {
		panic("fp width mismatch")
	}
	if a.conc && b.conc {
		if a.w == 32 {
			return fpConst32(f32(a.f32(), b.f32()))
		}
		return fpConst64(f64(a.f64(), b.f64()))
	}
	rm := &Term{op: rne, size: 1}
	return newTerm(op, SFP, a.w, rm, a, b)
}
func fpAdd(a, b *Term) *Term {
	return fpArith("fp.add", a, b, func(x, y float64) float64 { return x + y }, func(x, y float32) float32 { return x + y })
}
func fpSub(a, b *Term) *Term {
	return fpArith("fp.sub", a, b, func(x, y float64) float64 { return x - y }, func(x, y float32) float32 { return x - y })
}
func fpMul(a, b *Term) *Term {
	return fpArith("fp.mul", a, b, func(x, y float64) float64 { return x * y }, func(x, y float32) float32 { return x * y })
}
func fpDiv(a, b *Term) *Term {
	return fpArith("fp.div", a, b, func(x, y float64) float64 { return x / y }, func(x, y float32) float32 { return x / y })
}
func fpNeg(a *Term) *Term {
	if a.conc {
		if a.w == 32 {
			return fpConstBits(32, a.cv^(1<<31))
		}
		return fpConstBits(64, a.cv^(1<<63))
	}
	return newTerm("fp.neg", SFP, a.w, a)
}
func fpAbs(a *Term) *Term {
	if a.conc {
		if a.w == 32 {
			return fpConstBits(32, a.cv&^(1<<31))
		}
		return fpConstBits(64, a.cv&^(1<<63))
	}
	return newTerm("fp.abs", SFP, a.w, a)
}
func fpCmp(op string, a, b *Term, f func(x, y float64) bool) *Term {
	if a.conc && b.conc {
		return boolConst(f(a.fval(), b.fval()))
	}
	return newTerm(op, SBool, 0, a, b)
}
func fpLt(a, b *Term) *Term {
	return fpCmp("fp.lt", a, b, func(x, y float64) bool { return x < y })
}
func fpLe(a, b *Term) *Term {
	return fpCmp("fp.leq", a, b, func(x, y float64) bool { return x <= y })
}
func fpIsNaN(a *Term) *Term {
	if a.conc {
		return boolConst(a.fval() != a.fval())
	}
	return newTerm("fp.isNaN", SBool, 0, a)
}
func fpIsInf(a *Term) *Term {
	if a.conc {
		return boolConst(math.IsInf(a.fval(), 0))
	}
	return newTerm("fp.isInfinite", SBool, 0, a)
}
func fpIsNeg(a *Term) *Term { // sign bit set and not NaN
	if a.conc {
		return boolConst(math.Signbit(a.fval()) && a.fval() == a.fval())
	}
	return newTerm("fp.isNegative", SBool, 0, a)
}

// fpRoundInt: mode is one of roundTowardZero, roundTowardNegative, roundTowardPositive, roundNearestTiesToEven.
func fpRoundInt(mode string, a *Term) *Term {
	if a.conc {
		x := a.fval()
		switch mode {
		case "roundTowardZero":
			x = math.Trunc(x)
		case "roundTowardNegative":
			x = math.Floor(x)
		case "roundTowardPositive":
			x = math.Ceil(x)
		default:
			x = math.RoundToEven(x)
		}
		return fpRound(a.w, x)
	}
	rm := &Term{op: mode, size: 1}
	return newTerm("fp.roundToIntegral", SFP, a.w, rm, a)
}

// fpFromBV converts an integer term to floating point of width w (round to nearest even), as Go does.
func fpFromBV(a *Term, signed bool, w int) *Term {
	if a.conc {
		if signed {
			if w == 32 {
				return fpConst32(float32(sext(a.cv, a.w)))
			}
			return fpConst64(float64(sext(a.cv, a.w)))
		}
		if w == 32 {
			return fpConst32(float32(a.cv))
		}
		return fpConst64(float64(a.cv))
	}
	eb, sb := 11, 53
	if w == 32 {
		eb, sb = 8, 24
	}
	op := fmt.Sprintf("(_ to_fp_unsigned %d %d)", eb, sb)
	if signed {
		op = fmt.Sprintf("(_ to_fp %d %d)", eb, sb)
	}
	rm := &Term{op: rne, size: 1}
	return newTerm(op, SFP, w, rm, a)
}

func fpToFP(a *Term, w int) *Term {
	if a.w == w {
		return a
	}
	if a.conc {
		if w == 32 {
			return fpConst32(float32(a.f64()))
		}
		return fpConst64(float64(a.f32()))
	}
	eb, sb := 11, 53
	if w == 32 {
		eb, sb = 8, 24
	}
	rm := &Term{op: rne, size: 1}
	return newTerm(fmt.Sprintf("(_ to_fp %d %d)", eb, sb), SFP, w, rm, a)
}

// fpToBV converts float to integer the way amd64 Go does: truncation toward zero when the truncated value is
// representable in the destination; for NaN and out-of-range values a signed 64-bit (and int) destination yields
// 0x8000000000000000 ("integer indefinite" of CVTTSD2SI). Narrower destinations and unsigned destinations are
// implementation-specific in Go; they are modelled as conversion through int64 followed by truncation (what the
// amd64 compiler emits for widths < 64) and, for uint64, the compiler's two-range sequence.
func fpToBV(a *Term, signed bool, w int) *Term {
	if a.conc {
		f := a.fval()
		if signed || w < 64 {
			var i int64
			if f != f || f >= 9223372036854775808.0 || f < -9223372036854775808.0 {
				i = math.MinInt64
			} else {
				i = int64(f)
			}
			return bvConst(w, uint64(i))
		}
		// uint64
		if f != f {
			return bvConst(64, 1<<63)
		}
		if f < 9223372036854775808.0 {
			var i int64
			if f < -9223372036854775808.0 {
				i = math.MinInt64
			} else {
				i = int64(f)
			}
			return bvConst(64, uint64(i))
		}
		g := f - 9223372036854775808.0
		var i int64
		if g >= 9223372036854775808.0 {
			i = math.MinInt64
		} else {
			i = int64(g)
		}
		return bvConst(64, uint64(i)^(1<<63))
	}
	two63 := fpConst64(9223372036854775808.0)
	mtwo63 := fpConst64(-9223372036854775808.0)
	x := a
	if x.w == 32 {
		x = fpToFP(x, 64) // exact
	}
	rtz := &Term{op: "roundTowardZero", size: 1}
	toS := func(v *Term) *Term {
		inr := tAnd(fpLt(v, two63), fpLe(mtwo63, v)) // false for NaN
		return tIte(inr, newTerm("(_ fp.to_sbv 64)", SBV, 64, rtz, v), bvConst(64, 1<<63))
	}
	if signed || w < 64 {
		return bvResize(toS(x), w, true)
	}
	lo := toS(x)
	hi := bvXor(toS(fpSub(x, two63)), bvConst(64, 1<<63))
	return tIte(tOr(fpLt(x, two63), fpIsNaN(x)), lo, hi)
}

// helpers
func popcount(x uint64) int { return bits.OnesCount64(x) }
