// Goroutine layer (DESIGN §2.15): every entry runs under a cooperative scheduler; scheduling points are the
// synchronisation operations. Each simulated goroutine is a real goroutine, exactly one of which runs at a time.
package main

import (
	"fmt"
	"os"
	"runtime/debug"
	"go/token"
	"go/types"
	"strings"

	"golang.org/x/tools/go/ssa"
)

type GoR struct {
	started   bool // has been scheduled at least once
	lastVisitKey string
	delayed   bool // preempted with a long pause: not scheduled again before the others are quiescent
	id        int
	resume    chan struct{}
	done      bool
	blockedOn func() bool
	blockDesc string
	held      []*Cell
	name      string
	frames    *Frame
}

type yieldMsg struct {
	g     *GoR
	exit  bool
	panic interface{}
}

type Sched struct {
	visits      map[string]int // synchronisation operation at a source line -> times reached on this path
	gs          []*GoR
	cur         *GoR
	yieldCh     chan yieldMsg
	preemptions int
	bound       int
	freeSwitches int
	freeBound    int
	pauses       []PausePoint
	quiet        bool // no schedule exploration (deterministic run-until-block scheduling) while set
	aborting    bool
	trace       []int
	events      []string
	deadlock    string
	leaked      []string
}

type ChanObj struct {
	id     int64
	size   int
	buf    []Value
	closed bool
	elem   types.Type
	// rendezvous for unbuffered channels
	recvWaiting int
	handoff     []Value
	never       bool // never becomes ready (time.After)
}

type chanState struct {
	buf         []Value
	closed      bool
	recvWaiting int
	handoff     []Value
}

func (ex *Exec) schedWanted(fn *ssa.Function) bool { return true }

func (ex *Exec) runScheduled(fn *ssa.Function) {
	s := &Sched{yieldCh: make(chan yieldMsg), bound: ex.defaultSchedBound(), freeBound: 0}
	ex.sched = s
	main := ex.newGoR("main")
	go ex.gorBody(main, func() { ex.callFunction(fn, nil, nil, nil, token.NoPos) })
	var escaped interface{}
	defer func() {
		ex.abortAll()
		// outcomes recorded after the scheduler is gone (a panic that escapes the harness) still need the schedule
		ex.lastPauses = append([]PausePoint{}, s.pauses...)
		ex.sched = nil
	}()
	for {
		// pick next
		var enabled []*GoR
		for _, g := range s.gs {
			if g.done {
				continue
			}
			if g.blockedOn == nil || g.blockedOn() {
				enabled = append(enabled, g)
			}
		}
		if main.done {
			// the harness function returned: remaining goroutines may finish; those blocked forever are leaks
			if len(enabled) == 0 {
				for _, g := range s.gs {
					if !g.done {
						s.leaked = append(s.leaked, fmt.Sprintf("%s blocked on %s", g.name, g.blockDesc))
					}
				}
				if len(s.leaked) > 0 && ex.leakCheck {
					m, _, _ := ex.model(nil)
					ce := ex.recordCE("leak", "goroutine-leak", "goroutines blocked forever after the harness returned: "+strings.Join(s.leaked, "; "), token.Position{}, "", m)
					ce.Pauses = append([]PausePoint{}, s.pauses...)
				}
				return
			}
		}
		if len(enabled) == 0 {
			var ds []string
			for _, g := range s.gs {
				if !g.done {
					ds = append(ds, fmt.Sprintf("%s blocked on %s", g.name, g.blockDesc))
				}
			}
			s.deadlock = strings.Join(ds, "; ")
			ex.reportDeadlock(s.deadlock)
			return
		}
		// a goroutine preempted with a long pause stays out until every other goroutine is blocked or done (this is
		// exactly what the native confirmation does: a sleep at the preemption point)
		{
			var awake []*GoR
			for _, g := range enabled {
				if !g.delayed {
					awake = append(awake, g)
				}
			}
			if len(awake) == 0 {
				for _, g := range enabled {
					g.delayed = false
				}
			} else {
				enabled = awake
			}
		}
		var next *GoR
		curEnabled := false
		for _, g := range enabled {
			if g == s.cur {
				curEnabled = true
			}
		}
		switch {
		case len(enabled) == 1:
			next = enabled[0]
		case curEnabled:
			if s.preemptions < s.bound && !s.quiet {
				// cur first (no preemption), then the others
				order := []*GoR{s.cur}
				for _, g := range enabled {
					if g != s.cur {
						order = append(order, g)
					}
				}
				// 0: no preemption; 1..n-1: switch to another goroutine (the preempted one competes again at the next
				// blocking point); n..2n-2: the same with a long pause of the preempted goroutine
				n := len(order)
				k := ex.choose(2*n-1, "sched")
				if k >= n {
					k -= n - 1
					s.cur.delayed = true
				}
				next = order[k]
				if k != 0 {
					s.preemptions++
					// remember where the preempted goroutine was stopped: the native replay inserts a pause there
					if fr := ex.curFrame; fr != nil {
						pos := ex.posOf(fr, fr.curPos)
						s.pauses = append(s.pauses, PausePoint{File: pos.Filename, Line: pos.Line, Kind: s.cur.blockDesc, Func: shortFn(fr.fn.String()), Occ: s.visits[s.cur.lastVisitKey]})
					}
				}
			} else {
				next = s.cur
			}
		default:
			// the running goroutine blocked or finished: which of the others continues is a free choice, explored
			// up to the free-switch budget; beyond it the lowest-numbered enabled goroutine runs
			if s.freeSwitches < s.freeBound && !s.quiet {
				k := ex.choose(len(enabled), "sched")
				next = enabled[k]
				if k != 0 {
					s.freeSwitches++
				}
			} else {
				// the deterministic default is close to what the Go runtime does: a goroutine that has just been
				// created runs as soon as its creator (or whoever runs) blocks; otherwise the oldest runnable one
				next = enabled[0]
				for i := len(enabled) - 1; i >= 0; i-- {
					if !enabled[i].started {
						next = enabled[i]
						break
					}
				}
			}
		}
		next.started = true
		s.trace = append(s.trace, next.id)
		if schedTrace {
			var ds []string
			for _, g := range s.gs {
				if g.done {
					continue
				}
				st := "run"
				if g.blockedOn != nil {
					st = "blk"
					if g.blockedOn() {
						st = "rdy"
					}
				}
				ds = append(ds, fmt.Sprintf("%s:%s:%s", g.name, st, g.blockDesc))
			}
			fmt.Fprintf(os.Stderr, "SCHED -> %s | %s\n", next.name, strings.Join(ds, " "))
		}
		s.cur = next
		next.blockedOn = nil
		next.resume <- struct{}{}
		msg := <-s.yieldCh
		if msg.exit {
			msg.g.done = true
			if msg.panic != nil {
				escaped = msg.panic
				break
			}
		}
	}
	if escaped != nil {
		panic(escaped)
	}
}

// defaultSchedBound: one preemption (in its short and long flavour) at every synchronisation point. Two preemptions
// square the number of schedules (measured: > 400 000 paths in 45 min for the larger ATP entries), so the harnesses of
// the small sessions opt into verifSchedBound(2) in the thorough tier themselves.
func (ex *Exec) defaultSchedBound() int { return 1 }

func (ex *Exec) newGoR(name string) *GoR {
	g := &GoR{id: len(ex.sched.gs), resume: make(chan struct{}), name: fmt.Sprintf("g%d(%s)", len(ex.sched.gs), name)}
	ex.sched.gs = append(ex.sched.gs, g)
	ex.nGoroutines = len(ex.sched.gs)
	return g
}

func (ex *Exec) gorBody(g *GoR, f func()) {
	<-g.resume
	var p interface{}
	func() {
		defer func() {
			p = recover()
			switch p.(type) {
			case nil, *targetPanic, unsupported, assumeFailed, pathAbort, unwindFail, solverDied, schedAbort:
			default:
				p = fmt.Errorf("engine bug: %v\n%s", p, debug.Stack())
			}
		}()
		if ex.sched.aborting {
			return
		}
		f()
	}()
	if _, isAbort := p.(schedAbort); isAbort {
		p = nil
	}
	ex.sched.yieldCh <- yieldMsg{g: g, exit: true, panic: p}
}

type schedAbort struct{}

// PausePoint is a source position at which a goroutine was preempted on a counterexample schedule.
type PausePoint struct {
	File string `json:"file"`
	Line int    `json:"line"`
	Kind string `json:"kind"`
	Func string `json:"func"`
	// Occ: the preempted visit is the Occ-th time (over all goroutines, on this path) that this synchronisation
	// operation at this source line was reached; the native pause applies to that visit only
	Occ int `json:"occ"`
}

var schedTrace = os.Getenv("VERIF_SCHEDTRACE") != ""

func (ex *Exec) abortAll() {
	s := ex.sched
	if s == nil {
		return
	}
	s.aborting = true
	for _, g := range s.gs {
		if g.done {
			continue
		}
		g.resume <- struct{}{}
		msg := <-s.yieldCh
		msg.g.done = true
	}
}

// yield is a scheduling point of the running goroutine.
func (ex *Exec) yield(desc string) {
	s := ex.sched
	if s == nil || s.cur == nil {
		return
	}
	g := s.cur
	if fr := ex.curFrame; fr != nil {
		pos := ex.posOf(fr, fr.curPos)
		if s.visits == nil {
			s.visits = map[string]int{}
		}
		g.lastVisitKey = fmt.Sprintf("%s:%d:%s", pos.Filename, pos.Line, desc)
		s.visits[g.lastVisitKey]++
	}
	// fast path: nobody else could run
	others := false
	for _, o := range s.gs {
		if o != g && !o.done {
			others = true
			break
		}
	}
	if !others && g.blockedOn == nil {
		return
	}
	g.blockDesc = desc
	s.yieldCh <- yieldMsg{g: g}
	<-g.resume
	if s.aborting {
		panic(schedAbort{})
	}
}

func (ex *Exec) blockUntil(pred func() bool, desc string) {
	for !pred() {
		g := ex.sched.cur
		g.blockedOn = pred
		g.blockDesc = desc
		ex.sched.yieldCh <- yieldMsg{g: g}
		<-g.resume
		if ex.sched.aborting {
			panic(schedAbort{})
		}
	}
}

func (ex *Exec) reportDeadlock(desc string) {
	m, _, _ := ex.model(nil)
	ce := ex.recordCE("deadlock", "deadlock", "all goroutines blocked: "+desc, token.Position{}, "", m)
	ce.Pauses = append([]PausePoint{}, ex.sched.pauses...)
	ex.deadlocked = true
}

func (ex *Exec) spawn(fr *Frame, fn *FuncV, args []Value, pos token.Pos) {
	if ex.sched == nil {
		panic(unsupported{"go statement outside scheduler"})
	}
	name := fn.name
	if fn.fn != nil {
		name = shortFn(fn.fn.String())
	}
	g := ex.newGoR(name)
	go ex.gorBody(g, func() { ex.callValue(fn, args, nil, pos) })
	ex.yield("go")
}

// ---------- channels ----------

func (ex *Exec) makeChan(size int, t types.Type) *ChanObj {
	ex.mapCounter++
	return &ChanObj{id: ex.mapCounter, size: size, elem: t.Underlying().(*types.Chan).Elem()}
}

func (ex *Exec) chanMut(c *ChanObj, f func()) {
	if ex.journalOn {
		old := chanState{buf: c.buf, closed: c.closed, recvWaiting: c.recvWaiting, handoff: c.handoff}
		ex.journal = append(ex.journal, undoRec{ch: c, chOld: old})
	}
	f()
}


func (ex *Exec) chanSendReady(c *ChanObj) bool {
	if c == nil || c.never {
		return false
	}
	if c.closed {
		return true // will panic
	}
	if c.size > 0 {
		return len(c.buf) < c.size
	}
	return c.recvWaiting > len(c.handoff)
}

func (ex *Exec) chanRecvReady(c *ChanObj) bool {
	if c == nil || c.never {
		return false
	}
	return len(c.buf) > 0 || c.closed
}

func (ex *Exec) chanSend(fr *Frame, c *ChanObj, v Value, pos token.Pos) {
	ex.yield("send")
	if c == nil {
		ex.blockUntil(func() bool { return false }, "send on nil channel")
	}
	ex.blockUntil(func() bool { return ex.chanSendReady(c) }, fmt.Sprintf("chan send #%d", c.id))
	if c.closed {
		ex.rtPanic(fr, pos, "send on closed channel")
	}
	ex.chanMut(c, func() {
		if c.size > 0 {
			c.buf = append(append([]Value{}, c.buf...), v)
		} else {
			c.handoff = append(append([]Value{}, c.handoff...), v)
		}
	})
	ex.yield("sent")
}

func (ex *Exec) chanRecv(fr *Frame, c *ChanObj, commaOk bool, pos token.Pos) Value {
	ex.yield("recv")
	var elemT types.Type
	if c != nil {
		elemT = c.elem
	}
	if c == nil {
		ex.blockUntil(func() bool { return false }, "receive on nil channel")
	}
	var v Value
	ok := true
	if c.size > 0 {
		ex.blockUntil(func() bool { return ex.chanRecvReady(c) }, fmt.Sprintf("chan recv #%d", c.id))
		if len(c.buf) > 0 {
			v = c.buf[0]
			ex.chanMut(c, func() { c.buf = append([]Value{}, c.buf[1:]...) })
		} else {
			v, ok = ex.zero(elemT), false
		}
	} else {
		// unbuffered: announce, wait for a hand-off or close
		ex.chanMut(c, func() { c.recvWaiting++ })
		ex.blockUntil(func() bool { return len(c.handoff) > 0 || c.closed }, fmt.Sprintf("chan recv #%d", c.id))
		if len(c.handoff) > 0 {
			v = c.handoff[0]
			ex.chanMut(c, func() { c.handoff = append([]Value{}, c.handoff[1:]...); c.recvWaiting-- })
		} else {
			ex.chanMut(c, func() { c.recvWaiting-- })
			v, ok = ex.zero(elemT), false
		}
	}
	if commaOk {
		return TupleV{v, boolConst(ok)}
	}
	return v
}

func (ex *Exec) chanClose(fr *Frame, c *ChanObj, pos token.Pos) {
	if c == nil {
		ex.rtPanic(fr, pos, "close of nil channel")
	}
	if c.closed {
		ex.rtPanic(fr, pos, "close of closed channel")
	}
	ex.chanMut(c, func() { c.closed = true })
	ex.yield("close")
}

func (ex *Exec) selectOp(fr *Frame, ins *ssa.Select) Value {
	ex.yield("select")
	type st struct {
		c    *ChanObj
		send bool
		v    Value
	}
	states := make([]st, len(ins.States))
	for i, s := range ins.States {
		states[i] = st{c: ex.val(fr, s.Chan).(*ChanObj), send: s.Dir == types.SendOnly}
		if states[i].send {
			states[i].v = ex.val(fr, s.Send)
		}
	}
	// an unbuffered receive in a select must announce itself to let senders proceed
	for _, s := range states {
		if !s.send && s.c != nil && s.c.size == 0 {
			c := s.c
			ex.chanMut(c, func() { c.recvWaiting++ })
		}
	}
	unannounce := func(except int) {
		for i, s := range states {
			if i != except && !s.send && s.c != nil && s.c.size == 0 {
				c := s.c
				ex.chanMut(c, func() { c.recvWaiting-- })
			}
		}
	}
	ready := func() []int {
		var r []int
		for i, s := range states {
			if s.send {
				if ex.chanSendReady(s.c) {
					r = append(r, i)
				}
			} else if s.c != nil && !s.c.never {
				if s.c.size > 0 {
					if ex.chanRecvReady(s.c) {
						r = append(r, i)
					}
				} else if len(s.c.handoff) > 0 || s.c.closed {
					r = append(r, i)
				}
			}
		}
		return r
	}
	rs := ready()
	if len(rs) == 0 {
		if !ins.Blocking {
			unannounce(-1)
			return ex.selectResult(ins, -1, nil, false)
		}
		ex.blockUntil(func() bool { return len(ready()) > 0 }, "select")
		rs = ready()
	}
	k := rs[0]
	if len(rs) > 1 {
		k = rs[ex.choose(len(rs), "select")]
	}
	s := states[k]
	unannounce(k)
	if s.send {
		if s.c.closed {
			ex.rtPanic(fr, ins.Pos(), "send on closed channel")
		}
		c := s.c
		ex.chanMut(c, func() {
			if c.size > 0 {
				c.buf = append(append([]Value{}, c.buf...), s.v)
			} else {
				c.handoff = append(append([]Value{}, c.handoff...), s.v)
			}
		})
		return ex.selectResult(ins, k, nil, false)
	}
	c := s.c
	var v Value
	ok := true
	if c.size > 0 {
		if len(c.buf) > 0 {
			v = c.buf[0]
			ex.chanMut(c, func() { c.buf = append([]Value{}, c.buf[1:]...) })
		} else {
			v, ok = ex.zero(c.elem), false
		}
	} else {
		if len(c.handoff) > 0 {
			v = c.handoff[0]
			ex.chanMut(c, func() { c.handoff = append([]Value{}, c.handoff[1:]...); c.recvWaiting-- })
		} else {
			ex.chanMut(c, func() { c.recvWaiting-- })
			v, ok = ex.zero(c.elem), false
		}
	}
	return ex.selectResult(ins, k, v, ok)
}

func (ex *Exec) selectResult(ins *ssa.Select, chosen int, recv Value, recvOk bool) Value {
	r := TupleV{bvConst(64, uint64(int64(chosen))), boolConst(recvOk)}
	for i, st := range ins.States {
		if st.Dir == types.RecvOnly {
			if i == chosen && recv != nil {
				r = append(r, recv)
			} else {
				r = append(r, ex.zero(st.Chan.Type().Underlying().(*types.Chan).Elem()))
			}
		}
	}
	return r
}

// ---------- sync ----------

type mutexState struct {
	locked  bool
	owner   int
	readers int
}

func (ex *Exec) mutexOf(v Value, fr *Frame, pos token.Pos) (*Cell, mutexState) {
	p := v.(Ptr)
	if p.c == nil {
		ex.rtPanic(fr, pos, "invalid memory address or nil pointer dereference")
	}
	n, _ := p.c.val.(NativeV)
	st, _ := n.v.(mutexState)
	return p.c, st
}

func (ex *Exec) holdAdd(c *Cell) {
	if ex.sched != nil && ex.sched.cur != nil {
		ex.sched.cur.held = append(append([]*Cell{}, ex.sched.cur.held...), c)
	}
}
func (ex *Exec) holdDel(c *Cell) {
	if ex.sched != nil && ex.sched.cur != nil {
		h := ex.sched.cur.held
		for i := len(h) - 1; i >= 0; i-- {
			if h[i] == c {
				ex.sched.cur.held = append(append([]*Cell{}, h[:i]...), h[i+1:]...)
				return
			}
		}
	}
}

type wgState struct{ n int }
type onceState struct{ done bool }
type condState struct{ waiters []int; tickets int; woken map[int]bool }

func (ex *Exec) syncCall(full string, args []Value, fr *Frame, pos token.Pos) Value {
	gid := 0
	if ex.sched != nil && ex.sched.cur != nil {
		gid = ex.sched.cur.id
	}
	switch full {
	case "(*sync.Mutex).Lock", "(*sync.RWMutex).Lock":
		ex.yield("lock")
		c, _ := ex.mutexOf(args[0], fr, pos)
		ex.blockUntil(func() bool {
			n, _ := c.val.(NativeV)
			st, _ := n.v.(mutexState)
			return !st.locked && st.readers == 0
		}, "mutex "+cellPath(c))
		ex.setCell(c, NativeV{mutexState{locked: true, owner: gid}})
		ex.holdAdd(c)
		return nil
	case "(*sync.Mutex).TryLock":
		c, st := ex.mutexOf(args[0], fr, pos)
		if st.locked {
			return termFalse
		}
		ex.setCell(c, NativeV{mutexState{locked: true, owner: gid}})
		ex.holdAdd(c)
		return termTrue
	case "(*sync.Mutex).Unlock", "(*sync.RWMutex).Unlock":
		c, st := ex.mutexOf(args[0], fr, pos)
		if !st.locked {
			ex.fatal(fr, pos, "sync: unlock of unlocked mutex")
		}
		ex.setCell(c, NativeV{mutexState{}})
		ex.holdDel(c)
		ex.yield("unlock")
		return nil
	case "(*sync.RWMutex).RLock":
		ex.yield("rlock")
		c, _ := ex.mutexOf(args[0], fr, pos)
		ex.blockUntil(func() bool {
			n, _ := c.val.(NativeV)
			st, _ := n.v.(mutexState)
			return !st.locked
		}, "rwmutex "+cellPath(c))
		_, st := ex.mutexOf(args[0], fr, pos)
		st.readers++
		ex.setCell(c, NativeV{st})
		ex.holdAdd(c)
		return nil
	case "(*sync.RWMutex).RUnlock":
		c, st := ex.mutexOf(args[0], fr, pos)
		if st.readers == 0 {
			ex.fatal(fr, pos, "sync: RUnlock of unlocked RWMutex")
		}
		st.readers--
		ex.setCell(c, NativeV{st})
		ex.holdDel(c)
		ex.yield("runlock")
		return nil
	case "(*sync.WaitGroup).Add":
		p := args[0].(Ptr)
		n, _ := p.c.val.(NativeV)
		st, _ := n.v.(wgState)
		st.n += ex.concInt(args[1], "WaitGroup.Add")
		if st.n < 0 {
			ex.strPanic(fr, pos, "sync: negative WaitGroup counter")
		}
		ex.setCell(p.c, NativeV{st})
		return nil
	case "(*sync.WaitGroup).Done":
		p := args[0].(Ptr)
		n, _ := p.c.val.(NativeV)
		st, _ := n.v.(wgState)
		st.n--
		if st.n < 0 {
			ex.strPanic(fr, pos, "sync: negative WaitGroup counter")
		}
		ex.setCell(p.c, NativeV{st})
		ex.yield("wg.Done")
		return nil
	case "(*sync.WaitGroup).Wait":
		p := args[0].(Ptr)
		ex.yield("wg.Wait")
		ex.blockUntil(func() bool {
			n, _ := p.c.val.(NativeV)
			st, _ := n.v.(wgState)
			return st.n == 0
		}, "WaitGroup "+cellPath(p.c))
		return nil
	case "(*sync.Once).Do":
		p := args[0].(Ptr)
		n, _ := p.c.val.(NativeV)
		st, _ := n.v.(onceState)
		if st.done {
			return nil
		}
		ex.setCell(p.c, NativeV{onceState{done: true}})
		ex.callValue(args[1].(*FuncV), nil, fr, pos)
		return nil
	case "sync.NewCond":
		t := ex.lookupType("sync", "Cond")
		c := ex.newCell(t)
		ex.store(ex.condField(c, "L"), args[0])
		return Ptr{c}
	case "(*sync.Cond).Wait":
		p := args[0].(Ptr)
		if p.c == nil {
			ex.rtPanic(fr, pos, "invalid memory address or nil pointer dereference")
		}
		sc := ex.condStateCell(p.c)
		st := ex.condGet(sc)
		st.tickets++
		my := st.tickets
		st.waiters = append(append([]int{}, st.waiters...), my)
		ex.setCell(sc, NativeV{st})
		l := load(ex.condField(p.c, "L")).(IfaceV)
		ex.invokeMethod(l, "Unlock", fr, pos)
		ex.blockUntil(func() bool {
			cur := ex.condGet(sc)
			for _, w := range cur.waiters {
				if w == my {
					return false
				}
			}
			return true
		}, "cond.Wait "+cellPath(p.c))
		ex.invokeMethod(l, "Lock", fr, pos)
		return nil
	case "(*sync.Cond).Signal":
		p := args[0].(Ptr)
		sc := ex.condStateCell(p.c)
		st := ex.condGet(sc)
		if len(st.waiters) > 0 {
			st.waiters = append([]int{}, st.waiters[1:]...)
			ex.setCell(sc, NativeV{st})
		}
		ex.yield("cond.Signal")
		return nil
	case "(*sync.Cond).Broadcast":
		p := args[0].(Ptr)
		sc := ex.condStateCell(p.c)
		st := ex.condGet(sc)
		st.waiters = nil
		ex.setCell(sc, NativeV{st})
		ex.yield("cond.Broadcast")
		return nil
	}
	panic(unsupported{"sync op " + full})
}

func (ex *Exec) fatal(fr *Frame, pos token.Pos, msg string) {
	fn := ""
	if fr != nil {
		fn = fr.fn.String()
	}
	panic(&targetPanic{v: ex.makeErrorValue("fatal error: " + msg), msg: "fatal error: " + msg, pos: ex.posOf(fr, pos), fn: fn, runtime: true})
}

func (ex *Exec) condField(c *Cell, name string) *Cell {
	st := c.typ.Underlying().(*types.Struct)
	for i := 0; i < st.NumFields(); i++ {
		if st.Field(i).Name() == name {
			return c.elems[i]
		}
	}
	panic(unsupported{"sync.Cond has no field " + name})
}

func (ex *Exec) condStateCell(c *Cell) *Cell {
	n := ex.condField(c, "notify")
	for n.elems != nil {
		n = n.elems[0]
	}
	return n
}

func (ex *Exec) condGet(sc *Cell) condState {
	n, ok := sc.val.(NativeV)
	if !ok {
		return condState{}
	}
	st, _ := n.v.(condState)
	return st
}

func (ex *Exec) invokeMethod(recv IfaceV, name string, fr *Frame, pos token.Pos) Value {
	if recv.typ == nil {
		ex.rtPanic(fr, pos, "invalid memory address or nil pointer dereference")
	}
	fn := ex.lookupMethod(recv.typ, name)
	if fn == nil {
		panic(unsupported{"no method " + name + " on " + typeStr(recv.typ)})
	}
	return ex.callFunction(fn, []Value{recv.v}, nil, fr, pos)
}

func (ex *Exec) schedAPI(name string, args []Value, fr *Frame, pos token.Pos) Value {
	switch name {
	case "verifSchedBound":
		if ex.sched != nil {
			ex.sched.bound = ex.concInt(args[0], "verifSchedBound")
		}
		return nil
	case "verifSettle":
		// wait until every other goroutine is blocked or finished (natively: a short sleep)
		me := ex.sched.cur
		ex.yield("settle")
		ex.blockUntil(func() bool {
			for _, g := range ex.sched.gs {
				if g == me || g.done {
					continue
				}
				if g.blockedOn == nil || g.blockedOn() {
					return false
				}
			}
			return true
		}, "verifSettle")
		return nil
	case "verifSchedQuiet":
		if ex.sched != nil {
			ex.sched.quiet = args[0].(*Term).cv != 0
		}
		return nil
	case "verifSchedFreeBound":
		if ex.sched != nil {
			ex.sched.freeBound = ex.concInt(args[0], "verifSchedFreeBound")
		}
		return nil
	case "verifYield":
		ex.yield("verifYield")
		return nil
	case "verifSpawn":
		ex.spawn(fr, args[0].(*FuncV), nil, pos)
		return nil
	case "verifBlockUntil":
		fv := args[0].(*FuncV)
		ex.blockUntil(func() bool {
			r := ex.callValue(fv, nil, fr, pos).(*Term)
			if !r.conc {
				panic(unsupported{"verifBlockUntil with symbolic predicate"})
			}
			return r.cv != 0
		}, "verifBlockUntil")
		return nil
	case "verifSchedEvent":
		if ex.sched != nil {
			ex.sched.events = append(ex.sched.events, ex.concName(args[0]))
		}
		return nil
	}
	panic(unsupported{name})
}

// ---------- context / time / io / cbor: filled in by the atp layer ----------

func (ex *Exec) contextCall(full string, fn *ssa.Function, args []Value, fr *Frame, pos token.Pos) Value {
	switch full {
	case "context.Background", "context.TODO":
		return ex.newContext(nil)
	case "context.WithCancel":
		ctx := ex.newContext(nil)
		done := ctx.v.(*NatObj).data.(*ChanObj)
		cancel := &FuncV{name: "cancel", nat: func(ex *Exec, a []Value) Value {
			if !done.closed {
				ex.chanMut(done, func() { done.closed = true })
				ex.yield("cancel")
			}
			return nil
		}}
		return TupleV{ctx, cancel}
	}
	panic(unsupported{"context op " + full})
}

var contextMarker = types.NewNamed(types.NewTypeName(token.NoPos, nil, "verifContext", nil), types.NewStruct(nil, nil), nil)

func (ex *Exec) newContext(parent *NatObj) IfaceV {
	ex.mapCounter++
	done := &ChanObj{id: ex.mapCounter, size: 0, elem: types.NewStruct(nil, nil)}
	o := &NatObj{kind: "context", data: done}
	o.call = func(ex *Exec, m string, a []Value) Value {
		switch m {
		case "Done":
			return done
		case "Err":
			if done.closed {
				return ex.makeErrorValue("context canceled")
			}
			return IfaceV{}
		}
		panic(unsupported{"context." + m})
	}
	return IfaceV{typ: contextMarker, v: o}
}

func (ex *Exec) timeCall(full string, fn *ssa.Function, args []Value, fr *Frame, pos token.Pos) (Value, bool) {
	switch full {
	case "time.After":
		ex.mapCounter++
		return &ChanObj{id: ex.mapCounter, never: true, elem: ex.lookupType("time", "Time")}, true
	case "time.Now":
		return NativeV{"time"}, true
	case "time.Since":
		return bvConst(64, 0), true
	case "(time.Duration).String":
		return StrV{s: "<duration>"}, true
	}
	return nil, false
}

func (ex *Exec) ioCall(full string, fn *ssa.Function, args []Value, fr *Frame, pos token.Pos) (Value, bool) {
	switch full {
	case "bufio.NewWriter":
		// pass-through: the buffered writer forwards every write to its underlying writer at once
		return ex.nativePtr("bufio", "Writer", args[0]), true
	case "(*bufio.Writer).Flush":
		return IfaceV{}, true
	case "(*bufio.Writer).Write", "(*bufio.Writer).WriteString":
		panic(unsupported{full})
	}
	return nil, false
}

