// Intrinsics and stubs for standard-library and third-party callees (DESIGN §2.7).
package main

import (
	"encoding/json"
	"fmt"
	goformat "go/format"
	"go/token"
	"go/types"
	"math"
	"regexp"
	"strconv"
	"strings"

	"golang.org/x/tools/go/ssa"
)

func (ex *Exec) intrinsic(fn *ssa.Function, args []Value, fr *Frame, pos token.Pos) (Value, bool) {
	name := fn.Name()
	if p := pkgOf(fn); p != nil && ex.isTargetPkg(p) && fn.Signature.Recv() == nil {
		if strings.HasPrefix(name, "nondet") || strings.HasPrefix(name, "verif") || (len(name) > 1 && name[0] == 'v' && name[1] >= 'A' && name[1] <= 'Z') {
			if v, ok := ex.apiIntrinsic(name, fn, args, fr, pos); ok {
				return v, true
			}
		}
		return nil, false
	}
	full := fn.String()
	if strings.HasPrefix(full, "maps.Clone[") || full == "maps.clone" {
		m, _ := args[0].(*MapObj)
		if iv, ok := args[0].(IfaceV); ok {
			m, _ = iv.v.(*MapObj)
			if m == nil {
				return iv, true
			}
			ex.mapCounter++
			return IfaceV{typ: iv.typ, v: &MapObj{typ: m.typ, entries: append([]MapEntry{}, m.entries...), id: ex.mapCounter}}, true
		}
		if m == nil {
			return (*MapObj)(nil), true
		}
		ex.mapCounter++
		return &MapObj{typ: m.typ, entries: append([]MapEntry{}, m.entries...), id: ex.mapCounter}, true
	}
	if h, ok := intrinsicTable[full]; ok {
		ex.stubsHit[full]++
		return h(ex, args, fr, pos), true
	}
	if strings.HasPrefix(full, "reflect.") || strings.HasPrefix(full, "(reflect.") || strings.HasPrefix(full, "(*reflect.") {
		ex.stubsHit["reflect model"]++
		return ex.reflectCall(full, args, fr, pos), true
	}
	if strings.HasPrefix(full, "(*sync.") || strings.HasPrefix(full, "sync.") || strings.HasPrefix(full, "(*sync/atomic.") || strings.HasPrefix(full, "sync/atomic.") {
		ex.stubsHit["sync model"]++
		return ex.syncCall(full, args, fr, pos), true
	}
	if p := pkgOf(fn); p != nil {
		switch p.Pkg.Path() {
		case "go.arcalot.io/log/v2":
			ex.stubsHit["log (empty body)"]++
			return ex.logStub(fn, args), true
		case "github.com/fxamacker/cbor/v2":
			ex.stubsHit["cbor stub"]++
			return ex.cborCall(full, fn, args, fr, pos), true
		case "context":
			return ex.contextCall(full, fn, args, fr, pos), true
		case "time":
			if v, ok := ex.timeCall(full, fn, args, fr, pos); ok {
				return v, true
			}
		case "os", "io", "bufio":
			if v, ok := ex.ioCall(full, fn, args, fr, pos); ok {
				return v, true
			}
		}
	}
	return nil, false
}

type intrinsicFn func(ex *Exec, args []Value, fr *Frame, pos token.Pos) Value

var intrinsicTable map[string]intrinsicFn

func init() {
	intrinsicTable = map[string]intrinsicFn{
		"fmt.Sprintf": func(ex *Exec, a []Value, fr *Frame, pos token.Pos) Value { return ex.sprintf(a[0].(StrV), a[1].(SliceV), fr) },
		"fmt.Errorf":  (*Exec).errorf,
		"fmt.Sprint": func(ex *Exec, a []Value, fr *Frame, pos token.Pos) Value {
			sl := a[0].(SliceV)
			f := strings.Repeat("%v", sl.n)
			return ex.sprintf(StrV{s: f}, sl, fr)
		},
		"fmt.Println":  func(ex *Exec, a []Value, fr *Frame, pos token.Pos) Value { return TupleV{bvConst(64, 0), IfaceV{}} },
		"fmt.Printf":   func(ex *Exec, a []Value, fr *Frame, pos token.Pos) Value { return TupleV{bvConst(64, 0), IfaceV{}} },
		"fmt.Print":    func(ex *Exec, a []Value, fr *Frame, pos token.Pos) Value { return TupleV{bvConst(64, 0), IfaceV{}} },
		"fmt.Fprintf":  (*Exec).fprintf,
		"fmt.Fprint": func(ex *Exec, a []Value, fr *Frame, pos token.Pos) Value {
			sl := a[1].(SliceV)
			str := ex.sprintf(StrV{s: strings.Repeat("%v", sl.n)}, sl, fr).(StrV)
			return ex.writeString(a[0].(IfaceV), str, fr, pos)
		},
		"go/format.Source": func(ex *Exec, a []Value, fr *Frame, pos token.Pos) Value {
			sl := a[0].(SliceV)
			bs := make([]byte, sl.n)
			for i := range bs {
				t := load(sl.arr[sl.off+i]).(*Term)
				if !t.conc {
					panic(unsupported{"format.Source of symbolic bytes"})
				}
				bs[i] = byte(t.cv)
			}
			out, err := goformat.Source(bs)
			if err != nil {
				return TupleV{SliceV{}, ex.makeErrorValue(err.Error())}
			}
			return TupleV{ex.strToBytes(StrV{s: string(out)}, types.NewSlice(types.Typ[types.Uint8])), IfaceV{}}
		},
		"(golang.org/x/text/cases.Caser).String": func(ex *Exec, a []Value, fr *Frame, pos token.Pos) Value {
			// contract stub for cases.Title(language.Und, cases.NoLower): upper-case the first letter of every word
			s := ex.concStr(a[1].(StrV), "cases.Title")
			out := []rune(s)
			start := true
			for i, r := range out {
				isWord := r == '_' || r == '\'' || (r >= '0' && r <= '9') || (r >= 'a' && r <= 'z') || (r >= 'A' && r <= 'Z') || r > 127
				if isWord && start && r >= 'a' && r <= 'z' {
					out[i] = r - 32
				}
				start = !isWord
			}
			return StrV{s: string(out)}
		},
		"golang.org/x/text/cases.Title": func(ex *Exec, a []Value, fr *Frame, pos token.Pos) Value {
			return ex.zero(ex.lookupType("golang.org/x/text/cases", "Caser"))
		},
		"golang.org/x/text/cases.NoLower": nil,
		"fmt.Fprintln": func(ex *Exec, a []Value, fr *Frame, pos token.Pos) Value { return TupleV{bvConst(64, 0), IfaceV{}} },
		"errors.As":    (*Exec).errorsAs,
		"errors.Is":    (*Exec).errorsIs,
		"errors.Unwrap": func(ex *Exec, a []Value, fr *Frame, pos token.Pos) Value {
			return ex.unwrapErr(a[0].(IfaceV), fr)
		},
		"strconv.ParseInt":   (*Exec).parseInt,
		"strconv.ParseUint":  (*Exec).parseInt,
		"strconv.ParseFloat": (*Exec).parseFloat,
		"strconv.Itoa": func(ex *Exec, a []Value, fr *Frame, pos token.Pos) Value {
			t := a[0].(*Term)
			if t.conc {
				return StrV{s: strconv.FormatInt(t.sval(), 10)}
			}
			ns := newSymStr(symDec)
			ns.val, ns.signed = t, true
			return StrV{sym: ns}
		},
		"strconv.Quote": func(ex *Exec, a []Value, fr *Frame, pos token.Pos) Value {
			s := a[0].(StrV)
			if s.sym != nil {
				return StrV{sym: newSymStr(symOpaque)}
			}
			return StrV{s: strconv.Quote(s.s)}
		},
		"strings.ToLower": func(ex *Exec, a []Value, fr *Frame, pos token.Pos) Value {
			s := ex.byteForm(a[0].(StrV))
			if s.sym == nil {
				return StrV{s: strings.ToLower(s.s)}
			}
			if s.sym.kind == symBytes {
				ns := newSymStr(symBytes)
				for _, b := range s.sym.bytes {
					up := tAnd(bvUle(bvConst(8, 'A'), b), bvUle(b, bvConst(8, 'Z')))
					ns.bytes = append(ns.bytes, tIte(up, bvAdd(b, bvConst(8, 32)), b))
				}
				return StrV{sym: ns}
			}
			return StrV{s: strings.ToLower(ex.concStr(s, "strings.ToLower"))}
		},
		"strings.Join": func(ex *Exec, a []Value, fr *Frame, pos token.Pos) Value {
			sl := a[0].(SliceV)
			sep := a[1].(StrV)
			var r Value = StrV{}
			for i := 0; i < sl.n; i++ {
				if i > 0 {
					r = ex.strConcat(r.(StrV), sep)
				}
				r = ex.strConcat(r.(StrV), load(sl.arr[sl.off+i]).(StrV))
			}
			return r
		},
		"strings.Contains": func(ex *Exec, a []Value, fr *Frame, pos token.Pos) Value {
			h, n := a[0].(StrV), a[1].(StrV)
			if h.sym != nil && n.sym == nil && len(n.s) == 1 {
				if bs, ok := ex.asBytes(h); ok {
					r := termFalse
					for _, b := range bs {
						r = tOr(r, tEq(b, bvConst(8, uint64(n.s[0]))))
					}
					return r
				}
			}
			return boolConst(strings.Contains(ex.concStr(h, "strings.Contains"), ex.concStr(n, "strings.Contains")))
		},
		"strings.HasPrefix": func(ex *Exec, a []Value, fr *Frame, pos token.Pos) Value {
			return boolConst(strings.HasPrefix(ex.concStr(a[0].(StrV), "strings.HasPrefix"), ex.concStr(a[1].(StrV), "strings.HasPrefix")))
		},
		"strings.HasSuffix": func(ex *Exec, a []Value, fr *Frame, pos token.Pos) Value {
			return boolConst(strings.HasSuffix(ex.concStr(a[0].(StrV), "strings.HasSuffix"), ex.concStr(a[1].(StrV), "strings.HasSuffix")))
		},
		"strings.Split": func(ex *Exec, a []Value, fr *Frame, pos token.Pos) Value {
			return ex.strSliceValue(strings.Split(ex.concStr(a[0].(StrV), "strings.Split"), ex.concStr(a[1].(StrV), "strings.Split")))
		},
		"strings.SplitN": func(ex *Exec, a []Value, fr *Frame, pos token.Pos) Value {
			return ex.strSliceValue(strings.SplitN(ex.concStr(a[0].(StrV), "strings.SplitN"), ex.concStr(a[1].(StrV), "strings.SplitN"), ex.concInt(a[2], "SplitN n")))
		},
		"strings.Index": func(ex *Exec, a []Value, fr *Frame, pos token.Pos) Value {
			return bvConst(64, uint64(strings.Index(ex.concStr(a[0].(StrV), "strings.Index"), ex.concStr(a[1].(StrV), "strings.Index"))))
		},
		"strings.IndexByte":  (*Exec).indexByte,
		"internal/bytealg.IndexByteString": (*Exec).indexByte,
		"strings.TrimSpace": func(ex *Exec, a []Value, fr *Frame, pos token.Pos) Value {
			s := ex.byteForm(a[0].(StrV))
			if s.sym == nil {
				return StrV{s: strings.TrimSpace(s.s)}
			}
			if s.sym.kind == symBytes {
				bs := s.sym.bytes
				isSp := func(b *Term) *Term {
					return tOrN(tEq(b, bvConst(8, ' ')), tEq(b, bvConst(8, '\t')), tEq(b, bvConst(8, '\n')), tEq(b, bvConst(8, '\r')), tEq(b, bvConst(8, 0x0b)), tEq(b, bvConst(8, 0x0c)))
				}
				for len(bs) > 0 && ex.decide(isSp(bs[0])) {
					bs = bs[1:]
				}
				for len(bs) > 0 && ex.decide(isSp(bs[len(bs)-1])) {
					bs = bs[:len(bs)-1]
				}
				ns := newSymStr(symBytes)
				ns.bytes = bs
				return ex.normBytes(ns)
			}
			return StrV{s: strings.TrimSpace(ex.concStr(s, "strings.TrimSpace"))}
		},
		"strings.Repeat": func(ex *Exec, a []Value, fr *Frame, pos token.Pos) Value {
			return StrV{s: strings.Repeat(ex.concStr(a[0].(StrV), "strings.Repeat"), ex.concInt(a[1], "Repeat n"))}
		},
		"strings.ReplaceAll": func(ex *Exec, a []Value, fr *Frame, pos token.Pos) Value {
			return StrV{s: strings.ReplaceAll(ex.concStr(a[0].(StrV), "ReplaceAll"), ex.concStr(a[1].(StrV), "ReplaceAll"), ex.concStr(a[2].(StrV), "ReplaceAll"))}
		},
		"regexp.MustCompile": func(ex *Exec, a []Value, fr *Frame, pos token.Pos) Value {
			p := ex.concStr(a[0].(StrV), "regexp pattern")
			re, err := regexp.Compile(p)
			if err != nil {
				ex.strPanic(fr, pos, "regexp: Compile("+strconv.Quote(p)+"): "+err.Error())
			}
			return ex.nativePtr("regexp", "Regexp", re)
		},
		"regexp.Compile": func(ex *Exec, a []Value, fr *Frame, pos token.Pos) Value {
			p := ex.concStr(a[0].(StrV), "regexp pattern")
			re, err := regexp.Compile(p)
			if err != nil {
				return TupleV{Ptr{}, ex.makeErrorValue(err.Error())}
			}
			return TupleV{ex.nativePtr("regexp", "Regexp", re), IfaceV{}}
		},
		"regexp.QuoteMeta": func(ex *Exec, a []Value, fr *Frame, pos token.Pos) Value {
			return StrV{s: regexp.QuoteMeta(ex.concStr(a[0].(StrV), "QuoteMeta"))}
		},
		"(*regexp.Regexp).String": func(ex *Exec, a []Value, fr *Frame, pos token.Pos) Value {
			return StrV{s: ex.regexpOf(a[0], fr, pos).String()}
		},
		"(*regexp.Regexp).SubexpNames": func(ex *Exec, a []Value, fr *Frame, pos token.Pos) Value {
			return ex.strSliceValue(ex.regexpOf(a[0], fr, pos).SubexpNames())
		},
		"(*regexp.Regexp).MatchString":        (*Exec).regexpMatch,
		"(*regexp.Regexp).FindStringSubmatch": (*Exec).regexpFindSubmatch,
		"sort.Slice":                          (*Exec).sortSlice,
		"sort.SliceStable":                    (*Exec).sortSlice,
		"sort.Strings": func(ex *Exec, a []Value, fr *Frame, pos token.Pos) Value {
			sl := a[0].(SliceV)
			ss := make([]string, sl.n)
			for i := range ss {
				ss[i] = ex.concStr(load(sl.arr[sl.off+i]).(StrV), "sort.Strings")
			}
			sortStrings(ss)
			for i := range ss {
				ex.store(sl.arr[sl.off+i], StrV{s: ss[i]})
			}
			return nil
		},
		"math.Floor": func(ex *Exec, a []Value, fr *Frame, pos token.Pos) Value { return fpRoundInt("roundTowardNegative", a[0].(*Term)) },
		"math.Ceil":  func(ex *Exec, a []Value, fr *Frame, pos token.Pos) Value { return fpRoundInt("roundTowardPositive", a[0].(*Term)) },
		"math.Trunc": func(ex *Exec, a []Value, fr *Frame, pos token.Pos) Value { return fpRoundInt("roundTowardZero", a[0].(*Term)) },
		"math.Abs":   func(ex *Exec, a []Value, fr *Frame, pos token.Pos) Value { return fpAbs(a[0].(*Term)) },
		"math.IsNaN": func(ex *Exec, a []Value, fr *Frame, pos token.Pos) Value { return fpIsNaN(a[0].(*Term)) },
		"math.IsInf": func(ex *Exec, a []Value, fr *Frame, pos token.Pos) Value {
			f, sign := a[0].(*Term), a[1].(*Term)
			if !sign.conc {
				panic(unsupported{"math.IsInf symbolic sign"})
			}
			inf := fpIsInf(f)
			switch s := sign.sval(); {
			case s > 0:
				return tAnd(inf, tNot(fpIsNeg(f)))
			case s < 0:
				return tAnd(inf, fpIsNeg(f))
			}
			return inf
		},
		"math.Inf": func(ex *Exec, a []Value, fr *Frame, pos token.Pos) Value {
			if a[0].(*Term).sval() >= 0 {
				return fpConst64(math.Inf(1))
			}
			return fpConst64(math.Inf(-1))
		},
		"math.NaN":              func(ex *Exec, a []Value, fr *Frame, pos token.Pos) Value { return fpConst64(math.NaN()) },
		"math.Float64bits":      (*Exec).floatBits,
		"math.Float64frombits":  (*Exec).floatFromBits,
		"encoding/json.Unmarshal": (*Exec).jsonUnmarshal,
		"encoding/json.Marshal": func(ex *Exec, a []Value, fr *Frame, pos token.Pos) Value {
			panic(unsupported{"json.Marshal"})
		},
		"maps.Clone[map[string]any]": nil,
		"internal/bytealg.MakeNoZero": func(ex *Exec, a []Value, fr *Frame, pos token.Pos) Value {
			n := ex.concInt(a[0], "MakeNoZero")
			arr := make([]*Cell, n)
			for i := range arr {
				arr[i] = ex.newCell(types.Typ[types.Uint8])
			}
			return SliceV{arr: arr, n: n, cp: n, nonNil: true}
		},
		"internal/abi.NoEscape":           func(ex *Exec, a []Value, fr *Frame, pos token.Pos) Value { return a[0] },
		"(*strings.Builder).copyCheck":    func(ex *Exec, a []Value, fr *Frame, pos token.Pos) Value { return nil },
		"os.Exit": func(ex *Exec, a []Value, fr *Frame, pos token.Pos) Value {
			panic(pathAbort{"os.Exit called"})
		},
		"os.Getenv": func(ex *Exec, a []Value, fr *Frame, pos token.Pos) Value { return StrV{} },
		"runtime.Gosched": func(ex *Exec, a []Value, fr *Frame, pos token.Pos) Value {
			return nil
		},
		"time.Sleep": func(ex *Exec, a []Value, fr *Frame, pos token.Pos) Value { ex.yield("sleep"); return nil },
	}
	delete(intrinsicTable, "maps.Clone[map[string]any]")
	delete(intrinsicTable, "golang.org/x/text/cases.NoLower")
}

func sortStrings(ss []string) {
	for i := 1; i < len(ss); i++ {
		for j := i; j > 0 && ss[j] < ss[j-1]; j-- {
			ss[j], ss[j-1] = ss[j-1], ss[j]
		}
	}
}

func (ex *Exec) strSliceValue(ss []string) Value {
	if ss == nil {
		return SliceV{}
	}
	arr := make([]*Cell, len(ss))
	for i, s := range ss {
		arr[i] = ex.newCellVal(types.Typ[types.String], StrV{s: s})
	}
	return SliceV{arr: arr, n: len(arr), cp: len(arr), nonNil: true}
}

func (ex *Exec) lookupType(pkgPath, name string) types.Type {
	p := ex.prog.ImportedPackage(pkgPath)
	if p == nil {
		panic(unsupported{"package not loaded: " + pkgPath})
	}
	o := p.Pkg.Scope().Lookup(name)
	if o == nil {
		panic(unsupported{"type not found: " + pkgPath + "." + name})
	}
	return o.Type()
}

func (ex *Exec) nativePtr(pkgPath, name string, v interface{}) Value {
	t := ex.lookupType(pkgPath, name)
	c := &Cell{typ: t, val: NativeV{v}}
	return Ptr{c}
}

func (ex *Exec) regexpOf(v Value, fr *Frame, pos token.Pos) *regexp.Regexp {
	p := v.(Ptr)
	if p.c == nil {
		ex.rtPanic(fr, pos, "invalid memory address or nil pointer dereference")
	}
	n, ok := load(p.c).(NativeV)
	if !ok || n.v == nil {
		panic(unsupported{"uninitialised regexp"})
	}
	return n.v.(*regexp.Regexp)
}

func (ex *Exec) regexpMatch(a []Value, fr *Frame, pos token.Pos) Value {
	re := ex.regexpOf(a[0], fr, pos)
	s := a[1].(StrV)
	if s.sym == nil {
		return boolConst(re.MatchString(s.s))
	}
	if s.sym.kind == symUniverse {
		r := termFalse
		for i, alt := range s.sym.strs {
			if re.MatchString(alt) {
				r = tOr(r, tEq(s.sym.idx, bvConst(32, uint64(i))))
			}
		}
		return r
	}
	// uninterpreted: one boolean per (regexp, string identity)
	key := fmt.Sprintf("match|%p|%d", re, s.sym.id)
	if t, ok := ex.natives[key]; ok {
		return t.(*Term)
	}
	name := "match:" + s.sym.name
	if s.sym.name == "" {
		name = fmt.Sprintf("match:%d", s.sym.id)
	}
	t := ex.fresh(name, "bool", SBool, 0)
	ex.natives[key] = t
	ex.pathNatives = append(ex.pathNatives, key)
	return t
}

func (ex *Exec) regexpFindSubmatch(a []Value, fr *Frame, pos token.Pos) Value {
	re := ex.regexpOf(a[0], fr, pos)
	s := ex.byteForm(a[1].(StrV))
	if s.sym == nil {
		return ex.strSliceValue(re.FindStringSubmatch(s.s))
	}
	if h := ex.submatchStub; h != nil {
		return h(re, s)
	}
	if bs, ok := ex.asBytes(s); ok {
		return ex.submatchSkeleton(re, bs)
	}
	return ex.strSliceValue(re.FindStringSubmatch(ex.concStr(s, "FindStringSubmatch")))
}

// submatchSkeleton matches a byte string whose symbolic bytes are all decimal digits. The regexp must be
// digit-uniform (its only digit-sensitive atoms are [0-9] classes), so the match structure is the same for every
// digit value: the real regexp engine runs on a skeleton in which each symbolic digit is replaced by '7', and the
// resulting group boundaries are mapped back onto the symbolic bytes.
func (ex *Exec) submatchSkeleton(re *regexp.Regexp, bs []*Term) Value {
	src := re.String()
	stripped := strings.ReplaceAll(src, "[0-9]", "")
	stripped = regexp.MustCompile(`\(\?P<[A-Za-z0-9_]+>`).ReplaceAllString(stripped, "(")
	if strings.ContainsAny(stripped, "0123456789") || strings.Contains(stripped, "\\d") || strings.Contains(stripped, "[") {
		panic(unsupported{"FindStringSubmatch on symbolic digits with a regexp that is not digit-uniform"})
	}
	skel := make([]byte, len(bs))
	for i, b := range bs {
		if b.conc {
			skel[i] = byte(b.cv)
			continue
		}
		isDigit := tAnd(bvUle(bvConst(8, '0'), b), bvUle(b, bvConst(8, '9')))
		if ex.feasible(tNot(isDigit)) {
			panic(unsupported{"FindStringSubmatch on symbolic bytes that may be non-digits"})
		}
		skel[i] = '7'
	}
	ex.stubsHit["regexp.FindStringSubmatch on digit skeleton (digit-uniform regexp)"]++
	idx := re.FindStringSubmatchIndex(string(skel))
	if idx == nil {
		return SliceV{}
	}
	n := len(idx) / 2
	arr := make([]*Cell, n)
	for g := 0; g < n; g++ {
		var v StrV
		if idx[2*g] >= 0 {
			ns := newSymStr(symBytes)
			ns.bytes = bs[idx[2*g]:idx[2*g+1]]
			v = ex.normBytes(ns)
		}
		arr[g] = ex.newCellVal(types.Typ[types.String], v)
	}
	return SliceV{arr: arr, n: n, cp: n, nonNil: true}
}

func (ex *Exec) indexByte(a []Value, fr *Frame, pos token.Pos) Value {
	s := a[0].(StrV)
	c := a[1].(*Term)
	bs, ok := ex.asBytes(s)
	if !ok {
		bs, _ = ex.asBytes(StrV{s: ex.concStr(s, "IndexByte")})
	}
	r := bvConst(64, ^uint64(0))
	for i := len(bs) - 1; i >= 0; i-- {
		r = tIte(tEq(bs[i], c), bvConst(64, uint64(i)), r)
	}
	return r
}

func (ex *Exec) floatBits(a []Value, fr *Frame, pos token.Pos) Value {
	t := a[0].(*Term)
	if t.conc {
		return bvConst(64, t.cv)
	}
	panic(unsupported{"math.Float64bits of symbolic"})
}
func (ex *Exec) floatFromBits(a []Value, fr *Frame, pos token.Pos) Value {
	t := a[0].(*Term)
	if t.conc {
		return fpConstBits(64, t.cv)
	}
	return newTerm("(_ to_fp 11 53)", SFP, 64, t)
}

// ---------- sort ----------

func (ex *Exec) sortSlice(a []Value, fr *Frame, pos token.Pos) Value {
	x := a[0].(IfaceV)
	sl, ok := x.v.(SliceV)
	if !ok {
		ex.strPanic(fr, pos, "sort.Slice: not a slice")
	}
	less := a[1].(*FuncV)
	// insertion sort (stable) driven through the interpreted less function
	for i := 1; i < sl.n; i++ {
		for j := i; j > 0; j-- {
			r, ok := ex.lessOrUnknown(less, j, j-1, fr, pos)
			if !ok {
				// the comparison needs the content of symbolic strings (rendered numbers inside messages):
				// the order of such elements is left as is; recorded as a stub approximation
				ex.stubsHit["sort.Slice: order of symbolic strings not modelled"]++
				return nil
			}
			if !ex.decide(r) {
				break
			}
			vi, vj := load(sl.arr[sl.off+j]), load(sl.arr[sl.off+j-1])
			ex.store(sl.arr[sl.off+j], vj)
			ex.store(sl.arr[sl.off+j-1], vi)
		}
	}
	return nil
}

func (ex *Exec) lessOrUnknown(less *FuncV, i, j int, fr *Frame, pos token.Pos) (r *Term, ok bool) {
	defer func() {
		if p := recover(); p != nil {
			if u, isU := p.(unsupported); isU && strings.Contains(u.what, "string compare") {
				r, ok = nil, false
				return
			}
			panic(p)
		}
	}()
	return ex.callValue(less, []Value{bvConst(64, uint64(i)), bvConst(64, uint64(j))}, fr, pos).(*Term), true
}

// ---------- errors ----------

func (ex *Exec) makeErrorValue(msg string) IfaceV {
	return ex.makeErrorStr(StrV{s: msg})
}

func (ex *Exec) makeErrorStr(msg StrV) IfaceV {
	t := ex.lookupType("errors", "errorString")
	c := ex.newCell(t)
	ex.store(c.elems[0], msg)
	return IfaceV{typ: types.NewPointer(t), v: Ptr{c}}
}

func (ex *Exec) errorf(a []Value, fr *Frame, pos token.Pos) Value {
	format := a[0].(StrV)
	sl := a[1].(SliceV)
	msg := ex.sprintf(format, sl, fr).(StrV)
	if format.sym == nil && strings.Contains(format.s, "%w") {
		// find the operand of the first %w
		idx := verbArgIndex(format.s, 'w')
		if idx >= 0 && idx < sl.n {
			if w, ok := load(sl.arr[sl.off+idx]).(IfaceV); ok {
				t := ex.lookupType("fmt", "wrapError")
				c := ex.newCell(t)
				ex.store(c.elems[0], msg)
				if w.typ != nil && types.Implements(w.typ, errorIface()) {
					ex.store(c.elems[1], w)
				}
				return IfaceV{typ: types.NewPointer(t), v: Ptr{c}}
			}
		}
	}
	return ex.makeErrorStr(msg)
}

func errorIface() *types.Interface {
	return types.Universe.Lookup("error").Type().Underlying().(*types.Interface)
}

func verbArgIndex(format string, verb byte) int {
	n := 0
	for i := 0; i < len(format); i++ {
		if format[i] != '%' {
			continue
		}
		i++
		for i < len(format) && strings.IndexByte("+-# 0123456789.", format[i]) >= 0 {
			i++
		}
		if i >= len(format) {
			break
		}
		if format[i] == '%' {
			continue
		}
		if format[i] == verb {
			return n
		}
		n++
	}
	return -1
}

func (ex *Exec) unwrapErr(err IfaceV, fr *Frame) IfaceV {
	if err.typ == nil {
		return IfaceV{}
	}
	fn := ex.lookupMethod(err.typ, "Unwrap")
	if fn == nil {
		return IfaceV{}
	}
	if fn.Signature.Results().Len() != 1 || !types.Identical(fn.Signature.Results().At(0).Type(), types.Universe.Lookup("error").Type()) {
		return IfaceV{}
	}
	r := ex.callFunction(fn, []Value{err.v}, nil, fr, token.NoPos)
	return r.(IfaceV)
}

func (ex *Exec) errorsAs(a []Value, fr *Frame, pos token.Pos) Value {
	err := a[0].(IfaceV)
	target := a[1].(IfaceV)
	if target.typ == nil {
		ex.strPanic(fr, pos, "errors: target cannot be nil")
	}
	pt, ok := target.typ.Underlying().(*types.Pointer)
	if !ok || target.v.(Ptr).c == nil {
		ex.strPanic(fr, pos, "errors: target must be a non-nil pointer")
	}
	want := pt.Elem()
	for depth := 0; err.typ != nil && depth < 50; depth++ {
		if it, isI := want.Underlying().(*types.Interface); isI {
			if types.Implements(err.typ, it) {
				ex.store(target.v.(Ptr).c, err)
				return termTrue
			}
		} else if types.Identical(err.typ, want) {
			ex.store(target.v.(Ptr).c, err.v)
			return termTrue
		}
		if asFn := ex.lookupMethod(err.typ, "As"); asFn != nil {
			r := ex.callFunction(asFn, []Value{err.v, target}, nil, fr, pos).(*Term)
			if ex.decide(r) {
				return termTrue
			}
		}
		err = ex.unwrapErr(err, fr)
	}
	return termFalse
}

func (ex *Exec) errorsIs(a []Value, fr *Frame, pos token.Pos) Value {
	err := a[0].(IfaceV)
	target := a[1].(IfaceV)
	for depth := 0; err.typ != nil && depth < 50; depth++ {
		if target.typ != nil && types.Identical(err.typ, target.typ) && types.Comparable(err.typ) {
			if ex.decide(ex.equal(err.v, target.v, err.typ)) {
				return termTrue
			}
		}
		err = ex.unwrapErr(err, fr)
	}
	return boolConst(err.typ == nil && target.typ == nil)
}

func (ex *Exec) errorMessage(v IfaceV, fr *Frame) (msg string, ok bool) {
	if v.typ == nil {
		return "<nil>", true
	}
	fn := ex.lookupMethod(v.typ, "Error")
	if fn == nil {
		return "", false
	}
	defer func() {
		if r := recover(); r != nil {
			if _, isU := r.(unsupported); isU {
				msg, ok = "<error message unavailable>", true
				return
			}
			panic(r)
		}
	}()
	r := ex.callFunction(fn, []Value{v.v}, nil, fr, token.NoPos)
	s, isS := r.(StrV)
	if !isS || s.sym != nil {
		return "<symbolic error message>", true
	}
	return s.s, true
}

// ---------- fmt ----------

func (ex *Exec) fprintf(a []Value, fr *Frame, pos token.Pos) Value {
	w := a[0].(IfaceV)
	s := ex.sprintf(a[1].(StrV), a[2].(SliceV), fr).(StrV)
	return ex.writeString(w, s, fr, pos)
}

// writeString writes to an io.Writer through its interpreted Write method (os.Stdout/os.Stderr are discarded).
func (ex *Exec) writeString(w IfaceV, s StrV, fr *Frame, pos token.Pos) Value {
	if ex.fprintfHook != nil {
		ex.fprintfHook(w, s)
	}
	if w.typ == nil {
		ex.rtPanic(fr, pos, "invalid memory address or nil pointer dereference")
	}
	if strings.Contains(typeStr(w.typ), "os.File") {
		return TupleV{bvConst(64, 0), IfaceV{}}
	}
	if typeStr(w.typ) == "*bufio.Writer" {
		if p, ok := w.v.(Ptr); ok && p.c != nil {
			if n, ok := p.c.val.(NativeV); ok {
				if under, ok := n.v.(Value).(IfaceV); ok {
					return ex.writeString(under, s, fr, pos)
				}
			}
		}
		panic(unsupported{"bufio.Writer without an underlying writer"})
	}
	fn := ex.lookupMethod(w.typ, "Write")
	if fn == nil {
		return TupleV{bvConst(64, 0), IfaceV{}}
	}
	bs := ex.strToBytes(ex.byteForm(s), types.NewSlice(types.Typ[types.Uint8]))
	return ex.callFunction(fn, []Value{w.v, bs}, nil, fr, pos)
}

// sprintf formats natively when everything is concrete; a lone integer under %d yields a Dec string; anything
// else symbolic yields an opaque string (messages are never inspected by assertions).
func (ex *Exec) sprintf(format StrV, sl SliceV, fr *Frame) Value {
	if format.sym != nil {
		return StrV{sym: newSymStr(symOpaque)}
	}
	args := make([]Value, sl.n)
	for i := range args {
		args[i] = load(sl.arr[sl.off+i])
	}
	f := format.s
	var out Value = StrV{}
	appendS := func(s StrV) { out = ex.strConcat(out.(StrV), s) }
	argi := 0
	for i := 0; i < len(f); i++ {
		if f[i] != '%' {
			j := i
			for j < len(f) && f[j] != '%' {
				j++
			}
			appendS(StrV{s: f[i:j]})
			i = j - 1
			continue
		}
		j := i + 1
		for j < len(f) && strings.IndexByte("+-# 0123456789.", f[j]) >= 0 {
			j++
		}
		if j >= len(f) {
			appendS(StrV{s: "%!(NOVERB)"})
			break
		}
		verb := f[j]
		spec := f[i : j+1]
		i = j
		if verb == '%' {
			appendS(StrV{s: "%"})
			continue
		}
		if argi >= len(args) {
			appendS(StrV{s: "%!" + string(verb) + "(MISSING)"})
			continue
		}
		arg := args[argi]
		argi++
		appendS(ex.formatArg(spec, verb, arg, fr))
	}
	return out
}

func (ex *Exec) formatArg(spec string, verb byte, arg Value, fr *Frame) StrV {
	iv, _ := arg.(IfaceV)
	if rv, isRV := iv.v.(RVal); isRV && verb != 'T' {
		// fmt: a reflect.Value operand is replaced by the concrete value that it holds
		if rv.typ == nil {
			return StrV{s: "<invalid reflect.Value>"}
		}
		held := rv.get()
		if hi, isI := held.(IfaceV); isI && types.IsInterface(rv.typ) {
			iv = hi
		} else {
			iv = IfaceV{typ: rv.typ, v: held}
		}
		arg = iv
	}
	if verb == 'T' {
		if iv.typ == nil {
			return StrV{s: "<nil>"}
		}
		return StrV{s: typeStr(iv.typ)}
	}
	if iv.typ == nil {
		return StrV{s: "%!" + string(verb) + "(<nil>)"}
	}
	if verb == 'w' {
		verb = 'v'
		spec = "%v"
	}
	// error / Stringer for %v %s
	if verb == 'v' || verb == 's' || verb == 'q' {
		if _, isR := iv.v.(RType); isR {
			return StrV{s: typeStr(iv.v.(RType).t)}
		}
		if types.Implements(iv.typ, errorIface()) {
			if p, isP := iv.v.(Ptr); isP && p.c == nil {
				return StrV{s: "<nil>"}
			}
			msg, _ := ex.errorMessage(iv, fr)
			return StrV{s: msg}
		}
		if fn := ex.lookupMethod(iv.typ, "String"); fn != nil && fn.Signature.Params().Len() == 0 && fn.Signature.Results().Len() == 1 {
			if p, isP := iv.v.(Ptr); !(isP && p.c == nil) {
				func() {
					defer func() {
						if r := recover(); r != nil {
							if _, isU := r.(unsupported); !isU {
								panic(r)
							}
						}
					}()
					if s, ok := ex.callFunction(fn, []Value{iv.v}, nil, fr, token.NoPos).(StrV); ok {
						arg = s
					}
				}()
				if s, ok := arg.(StrV); ok {
					return s
				}
			}
		}
	}
	switch x := iv.v.(type) {
	case *Term:
		if !x.conc {
			if x.sort == SBV && verb == 'd' && spec == "%d" {
				ns := newSymStr(symDec)
				ns.val, ns.signed = x, isSigned(iv.typ)
				return StrV{sym: ns}
			}
			if x.sort == SBV && verb == 'v' && spec == "%v" && isInteger(iv.typ) {
				ns := newSymStr(symDec)
				ns.val, ns.signed = x, isSigned(iv.typ)
				return StrV{sym: ns}
			}
			if x.sort == SFP && x.w == 64 && spec == "%f" {
				// a whole number in [0, 2^53): "%f" renders the integer's decimal digits followed by ".000000";
				// every other symbolic float stays opaque (outside the C16 claim)
				whole := tAnd(tEq(fpRoundInt("roundTowardZero", x), x),
					tAnd(tNot(fpIsNeg(x)), tAnd(fpLe(fpConst64(0), x), fpLt(x, fpConst64(1<<53)))))
				if ex.decide(whole) {
					ns := newSymStr(symDec)
					ns.val, ns.signed = fpToBV(x, true, 64), true
					return ex.strConcat(StrV{sym: ns}, StrV{s: ".000000"}).(StrV)
				}
			}
			return StrV{sym: newSymStr(symOpaque)}
		}
		switch x.sort {
		case SBool:
			return StrV{s: fmt.Sprintf(spec, x.cv != 0)}
		case SFP:
			if x.w == 32 {
				return StrV{s: fmt.Sprintf(spec, x.f32())}
			}
			return StrV{s: fmt.Sprintf(spec, x.f64())}
		default:
			if isSigned(iv.typ) {
				return StrV{s: fmt.Sprintf(spec, x.sval())}
			}
			return StrV{s: fmt.Sprintf(spec, x.cv)}
		}
	case StrV:
		if x.sym != nil {
			if spec == "%s" || spec == "%v" {
				return x
			}
			return StrV{sym: newSymStr(symOpaque)}
		}
		return StrV{s: fmt.Sprintf(spec, x.s)}
	}
	// composite values: approximate rendering (never inspected by assertions)
	return StrV{s: "<" + typeStr(iv.typ) + ">"}
}

// ---------- strconv ----------

func (ex *Exec) strconvError(fnName string, s string, why string) IfaceV {
	// *strconv.NumError{Func, Num, Err}
	t := ex.lookupType("strconv", "NumError")
	c := ex.newCell(t)
	ex.store(c.elems[0], StrV{s: fnName})
	ex.store(c.elems[1], StrV{s: s})
	ex.store(c.elems[2], ex.makeErrorValue(why))
	return IfaceV{typ: types.NewPointer(t), v: Ptr{c}}
}

func (ex *Exec) parseInt(a []Value, fr *Frame, pos token.Pos) Value {
	s := a[0].(StrV)
	if s.sym != nil && s.sym.kind == symConcat {
		s = ex.byteForm(s)
	}
	base := ex.concInt(a[1], "ParseInt base")
	bitSize := ex.concInt(a[2], "ParseInt bitSize")
	unsigned := fr != nil && false
	_ = unsigned
	if s.sym == nil {
		n, err := strconv.ParseInt(s.s, base, bitSize)
		if err != nil {
			return TupleV{bvConst(64, uint64(n)), ex.strconvError("ParseInt", s.s, err.(*strconv.NumError).Err.Error())}
		}
		return TupleV{bvConst(64, uint64(n)), IfaceV{}}
	}
	if s.sym.kind == symDec && base == 10 && bitSize == 64 && s.sym.signed {
		return TupleV{bvResize(s.sym.val, 64, true), IfaceV{}}
	}
	if s.sym.kind == symBytes && base == 10 && bitSize == 64 {
		return ex.parseDigits(s.sym.bytes, fr)
	}
	if s.sym.kind == symUniverse {
		return ex.parseInt([]Value{StrV{s: ex.concStr(s, "ParseInt")}, a[1], a[2]}, fr, pos)
	}
	// uninterpreted, deterministic per string
	key := fmt.Sprintf("parseint|%d", s.sym.id)
	if r, ok := ex.natives[key]; ok {
		return r.(TupleV)
	}
	okT := ex.freshInternal("parseok", SBool, 0)
	vT := ex.freshInternal("parseval", SBV, 64)
	var res TupleV
	if ex.decide(okT) {
		res = TupleV{vT, IfaceV{}}
	} else {
		res = TupleV{bvConst(64, 0), ex.strconvError("ParseInt", "<symbolic>", "invalid syntax")}
	}
	ex.natives[key] = res
	ex.pathNatives = append(ex.pathNatives, key)
	return res
}

// parseDigits gives strconv.ParseInt(s,10,64) on a byte string of concrete length whose bytes are symbolic:
// optional sign, then digits only; the value is computed in 128-bit-safe fashion by tracking overflow.
func (ex *Exec) parseDigits(bs []*Term, fr *Frame) Value {
	if len(bs) == 0 {
		return TupleV{bvConst(64, 0), ex.strconvError("ParseInt", "", "invalid syntax")}
	}
	neg := false
	start := 0
	if ex.decide(tEq(bs[0], bvConst(8, '-'))) {
		neg = true
		start = 1
	} else if ex.decide(tEq(bs[0], bvConst(8, '+'))) {
		start = 1
	}
	if start == len(bs) {
		return TupleV{bvConst(64, 0), ex.strconvError("ParseInt", "<sign>", "invalid syntax")}
	}
	allDig := termTrue
	for _, b := range bs[start:] {
		allDig = tAnd(allDig, tAnd(bvUle(bvConst(8, '0'), b), bvUle(b, bvConst(8, '9'))))
	}
	if !ex.decide(allDig) {
		// underscores are only legal with base 0; anything else is a syntax error
		return TupleV{bvConst(64, 0), ex.strconvError("ParseInt", "<symbolic>", "invalid syntax")}
	}
	// accumulate in 128 bits? use 64-bit with explicit overflow flag: acc*10+d overflows iff acc > (2^64-1-d)/10
	acc := bvConst(64, 0)
	ovf := termFalse
	for _, b := range bs[start:] {
		d := bvSub(bvResize(b, 64, false), bvConst(64, '0'))
		// acc > (MaxUint64 - d)/10  <=> overflow; (MaxUint64-d)/10 is either 1844674407370955161 (d<=5) or ...160 (d>5)
		lim := tIte(bvUle(d, bvConst(64, 5)), bvConst(64, 1844674407370955161), bvConst(64, 1844674407370955160))
		ovf = tOr(ovf, bvUlt(lim, acc))
		acc = bvAdd(bvMul(acc, bvConst(64, 10)), d)
	}
	var rangeErr *Term
	if neg {
		rangeErr = tOr(ovf, bvUlt(bvConst(64, 1<<63), acc))
	} else {
		rangeErr = tOr(ovf, bvUle(bvConst(64, 1<<63), acc))
	}
	if ex.decide(rangeErr) {
		v := uint64(math.MaxInt64)
		if neg {
			v = 1 << 63
		}
		return TupleV{bvConst(64, v), ex.strconvError("ParseInt", "<symbolic>", "value out of range")}
	}
	if neg {
		return TupleV{bvNeg(acc), IfaceV{}}
	}
	return TupleV{acc, IfaceV{}}
}

func (ex *Exec) parseFloat(a []Value, fr *Frame, pos token.Pos) Value {
	s := a[0].(StrV)
	bitSize := ex.concInt(a[1], "ParseFloat bitSize")
	if s.sym != nil && s.sym.kind == symUniverse {
		s = StrV{s: ex.concStr(s, "ParseFloat")}
	}
	if s.sym == nil {
		f, err := strconv.ParseFloat(s.s, bitSize)
		if err != nil {
			return TupleV{fpConst64(f), ex.strconvError("ParseFloat", s.s, err.(*strconv.NumError).Err.Error())}
		}
		return TupleV{fpConst64(f), IfaceV{}}
	}
	if s.sym.kind == symConcat || s.sym.kind == symDec {
		s = ex.byteForm(s)
	}
	if s.sym != nil && s.sym.kind == symBytes && bitSize == 64 {
		if r, ok := ex.parseWholeDecimal(s.sym.bytes); ok {
			return r
		}
	}
	if s.sym == nil {
		return ex.parseFloat([]Value{s, a[1]}, fr, pos)
	}
	key := fmt.Sprintf("parsefloat|%d", s.sym.id)
	if r, ok := ex.natives[key]; ok {
		return r.(TupleV)
	}
	okT := ex.freshInternal("pfok", SBool, 0)
	vT := ex.freshInternal("pfval", SFP, 64)
	var res TupleV
	if ex.decide(okT) {
		res = TupleV{vT, IfaceV{}}
	} else {
		res = TupleV{fpConst64(0), ex.strconvError("ParseFloat", "<symbolic>", "invalid syntax")}
	}
	ex.natives[key] = res
	ex.pathNatives = append(ex.pathNatives, key)
	return res
}

// parseWholeDecimal gives strconv.ParseFloat(s, 64) on a byte string of concrete length of the form
// digits [ "." zeros ] with 1..18 integer digits: the value is the integer, converted with round-to-nearest-even
// (what strconv's correctly rounded conversion yields for an integer). Any other form: ok=false (the caller falls
// back to the uninterpreted model). Forks on symbolic bytes.
func (ex *Exec) parseWholeDecimal(bs []*Term) (Value, bool) {
	acc := bvConst(64, 0)
	nInt, inFrac := 0, false
	for _, b := range bs {
		if !inFrac && ex.decide(tEq(b, bvConst(8, '.'))) {
			inFrac = true
			continue
		}
		if inFrac {
			if !ex.decide(tEq(b, bvConst(8, '0'))) {
				return nil, false
			}
			continue
		}
		if !ex.decide(tAnd(bvUle(bvConst(8, '0'), b), bvUle(b, bvConst(8, '9')))) {
			return nil, false
		}
		nInt++
		if nInt > 18 {
			return nil, false
		}
		acc = bvAdd(bvMul(acc, bvConst(64, 10)), bvSub(bvResize(b, 64, false), bvConst(64, '0')))
	}
	if nInt == 0 {
		return nil, false
	}
	return TupleV{fpFromBV(acc, true, 64), IfaceV{}}, true
}

// ---------- encoding/json (concrete input only) ----------

func (ex *Exec) jsonUnmarshal(a []Value, fr *Frame, pos token.Pos) Value {
	data := a[0].(SliceV)
	bs := make([]byte, data.n)
	for i := range bs {
		t := load(data.arr[data.off+i]).(*Term)
		if !t.conc {
			panic(unsupported{"json.Unmarshal of symbolic bytes"})
		}
		bs[i] = byte(t.cv)
	}
	target := a[1].(IfaceV)
	p, ok := target.v.(Ptr)
	if !ok || p.c == nil {
		return ex.makeErrorValue("json: Unmarshal(non-pointer)")
	}
	// an interface target holding a non-nil pointer is decoded through (encoding/json indirect)
	for {
		iv, isI := p.c.val.(IfaceV)
		if !isI || p.c.elems != nil {
			break
		}
		inner, isP := iv.v.(Ptr)
		if !isP || inner.c == nil {
			break
		}
		p = inner
	}
	if !isInterface(p.c.typ) || p.c.typ.Underlying().(*types.Interface).NumMethods() != 0 {
		panic(unsupported{"json.Unmarshal into " + typeStr(p.c.typ)})
	}
	var v interface{}
	if err := json.Unmarshal(bs, &v); err != nil {
		return ex.makeErrorValue(err.Error())
	}
	ex.store(p.c, ex.fromNative(v))
	return IfaceV{}
}

// fromNative converts a decoded JSON value to an engine interface value.
func (ex *Exec) fromNative(v interface{}) IfaceV {
	anyT := types.NewInterfaceType(nil, nil)
	switch x := v.(type) {
	case nil:
		return IfaceV{}
	case bool:
		return IfaceV{typ: types.Typ[types.Bool], v: boolConst(x)}
	case float64:
		return IfaceV{typ: types.Typ[types.Float64], v: fpConst64(x)}
	case string:
		return IfaceV{typ: types.Typ[types.String], v: StrV{s: x}}
	case []interface{}:
		st := types.NewSlice(anyT)
		arr := make([]*Cell, len(x))
		for i, e := range x {
			arr[i] = ex.newCellVal(anyT, ex.fromNative(e))
		}
		return IfaceV{typ: st, v: SliceV{arr: arr, n: len(arr), cp: len(arr), nonNil: true}}
	case map[string]interface{}:
		mt := types.NewMap(types.Typ[types.String], anyT)
		ex.mapCounter++
		m := &MapObj{typ: mt, id: ex.mapCounter}
		keys := make([]string, 0, len(x))
		for k := range x {
			keys = append(keys, k)
		}
		sortStrings(keys)
		for _, k := range keys {
			m.entries = append(m.entries, MapEntry{StrV{s: k}, ex.fromNative(x[k])})
		}
		return IfaceV{typ: mt, v: m}
	}
	panic(unsupported{fmt.Sprintf("fromNative %T", v)})
}

// ---------- logger stub ----------

func (ex *Exec) logStub(fn *ssa.Function, args []Value) Value {
	res := fn.Signature.Results()
	switch res.Len() {
	case 0:
		return nil
	case 1:
		t := res.At(0).Type()
		if isInterface(t) {
			// a logger value: any non-nil interface whose methods are all stubs
			return IfaceV{typ: loggerMarker, v: NativeV{"logger"}}
		}
		return ex.zero(t)
	}
	tv := make(TupleV, res.Len())
	for i := range tv {
		tv[i] = ex.zero(res.At(i).Type())
	}
	return tv
}

var loggerMarker = types.NewNamed(types.NewTypeName(token.NoPos, nil, "verifLogger", nil), types.NewStruct(nil, nil), nil)

// specialMethod resolves interface method calls on engine-provided objects.
func (ex *Exec) specialMethod(recv IfaceV, m *types.Func) (*FuncV, bool) {
	if recv.typ == loggerMarker {
		sig := m.Type().(*types.Signature)
		return &FuncV{name: "logger." + m.Name(), nat: func(ex *Exec, args []Value) Value {
			res := sig.Results()
			switch res.Len() {
			case 0:
				return nil
			case 1:
				if isInterface(res.At(0).Type()) {
					return IfaceV{typ: loggerMarker, v: NativeV{"logger"}}
				}
				return ex.zero(res.At(0).Type())
			}
			return nil
		}}, true
	}
	if rt, ok := recv.v.(RType); ok {
		name := m.Name()
		return &FuncV{name: "reflect.Type." + name, nat: func(ex *Exec, args []Value) Value {
			return ex.reflectTypeMethod(rt, name, args[1:])
		}}, true
	}
	if nv, ok := recv.v.(*NatObj); ok {
		name := m.Name()
		return &FuncV{name: "native." + name, nat: func(ex *Exec, args []Value) Value {
			return nv.call(ex, name, args[1:])
		}}, true
	}
	return nil, false
}

// NatObj is an engine-implemented object behind an interface (io streams, contexts).
type NatObj struct {
	kind string
	call func(ex *Exec, method string, args []Value) Value
	data interface{}
}
