// SSA interpreter over engine values.
package main

import (
	"fmt"
	"go/constant"
	"go/token"
	"go/types"
	"strings"

	"golang.org/x/tools/go/ssa"
)

// ---------- path-ending conditions (Go panics inside the engine) ----------

type unsupported struct{ what string }
type assumeFailed struct{}
type pathAbort struct{ why string }
type unwindFail struct{ what string }

// targetPanic is a panic of the interpreted program.
type targetPanic struct {
	v       IfaceV
	msg     string
	pos     token.Position
	fn      string // function containing the panicking instruction
	runtime bool
}

type deferred struct {
	fn   *FuncV
	args []Value
	pos  token.Pos
}

type Frame struct {
	fn        *ssa.Function
	env       map[ssa.Value]Value
	defers    []deferred
	caller    *Frame
	block     *ssa.BasicBlock
	prev      *ssa.BasicBlock
	result    Value
	panicking bool
	panicVal  *targetPanic
	depth     int
	curPos    token.Pos
	tolerant  bool
}

// Poison marks a value whose defining init instruction was skipped.
type Poison struct{ why string }

func derefType(t types.Type) types.Type { return t.Underlying().(*types.Pointer).Elem() }

func pkgOf(fn *ssa.Function) *ssa.Package {
	if fn.Pkg != nil {
		return fn.Pkg
	}
	if o := fn.Origin(); o != nil && o.Pkg != nil {
		return o.Pkg
	}
	if p := fn.Parent(); p != nil {
		return pkgOf(p)
	}
	return nil
}

func (ex *Exec) posOf(fr *Frame, p token.Pos) token.Position {
	if p == token.NoPos && fr != nil {
		p = fr.curPos
	}
	return ex.prog.Fset.Position(p)
}

func (ex *Exec) rtPanic(fr *Frame, pos token.Pos, msg string) {
	fn := ""
	if fr != nil {
		fn = fr.fn.String()
	}
	panic(&targetPanic{v: ex.makeErrorValue("runtime error: " + msg), msg: "runtime error: " + msg, pos: ex.posOf(fr, pos), fn: fn, runtime: true})
}

// strPanic raises a panic whose value is a plain string (what reflect and explicit panic("...") do).
func (ex *Exec) strPanic(fr *Frame, pos token.Pos, msg string) {
	fn := ""
	if fr != nil {
		fn = fr.fn.String()
	}
	panic(&targetPanic{v: IfaceV{typ: types.Typ[types.String], v: StrV{s: msg}}, msg: msg, pos: ex.posOf(fr, pos), fn: fn})
}

func (ex *Exec) val(fr *Frame, v ssa.Value) Value {
	switch v := v.(type) {
	case *ssa.Const:
		return ex.constVal(v)
	case *ssa.Function:
		return &FuncV{fn: v}
	case *ssa.Builtin:
		return &FuncV{bi: v}
	case *ssa.Global:
		return Ptr{ex.globalCell(v)}
	case nil:
		return nil
	}
	r, ok := fr.env[v]
	if !ok {
		panic(fmt.Sprintf("engine: no value for %s in %s", v.Name(), fr.fn))
	}
	switch p := r.(type) {
	case Poison:
		panic(unsupported{"poisoned value (" + p.why + ")"})
	case *LazyV:
		r = ex.force(p)
		fr.env[v] = r
	}
	return r
}

func (ex *Exec) globalCell(g *ssa.Global) *Cell {
	c, ok := ex.globals[g]
	if !ok {
		ex.ensureInit(g.Pkg)
		if c, ok = ex.globals[g]; ok {
			return c
		}
		c = ex.newCell(g.Type().(*types.Pointer).Elem())
		c.label = g.String()
		ex.globals[g] = c
	}
	return c
}

func (ex *Exec) constVal(c *ssa.Const) Value {
	t := c.Type()
	if c.Value == nil {
		return ex.zero(t)
	}
	if u, ok := t.Underlying().(*types.Basic); ok {
		switch {
		case u.Info()&types.IsBoolean != 0:
			return boolConst(constant.BoolVal(c.Value))
		case u.Info()&types.IsInteger != 0:
			if i, ok := constant.Int64Val(constant.ToInt(c.Value)); ok {
				return bvConst(width(u), uint64(i))
			}
			ui, _ := constant.Uint64Val(constant.ToInt(c.Value))
			return bvConst(width(u), ui)
		case u.Info()&types.IsFloat != 0:
			f, _ := constant.Float64Val(c.Value)
			if u.Kind() == types.Float32 {
				f32, _ := constant.Float32Val(c.Value)
				return fpConst32(f32)
			}
			return fpConst64(f)
		case u.Info()&types.IsString != 0:
			return StrV{s: constant.StringVal(c.Value)}
		}
	}
	panic(unsupported{"const " + c.String()})
}

func (ex *Exec) callFunction(fn *ssa.Function, args []Value, bind []Value, caller *Frame, pos token.Pos) Value {
	if r, ok := ex.intrinsic(fn, args, caller, pos); ok {
		return r
	}
	if fn.Blocks == nil {
		panic(unsupported{"external " + fn.String()})
	}
	if fn.Name() == "init" && fn.Signature.Recv() == nil && fn.Parent() == nil && fn.Pkg != nil && fn.Pkg.Func("init") == fn {
		if ex.isTargetPkg(fn.Pkg) {
			ex.ensureInit(fn.Pkg)
		}
		return nil
	}
	if p := pkgOf(fn); p != nil && !ex.inited[p] {
		ex.ensureInit(p)
	}
	if fn.TypeParams().Len() > 0 && len(fn.TypeArgs()) == 0 {
		panic(unsupported{"uninstantiated generic " + fn.String()})
	}
	depth := 0
	if caller != nil {
		depth = caller.depth + 1
	}
	if depth > ex.maxDepth {
		panic(unwindFail{"call depth > " + fmt.Sprint(ex.maxDepth) + " in " + fn.String()})
	}
	fr := &Frame{fn: fn, env: make(map[ssa.Value]Value, 16), caller: caller, depth: depth}
	ex.funcsSeen[fn] = true
	for i, p := range fn.Params {
		fr.env[p] = args[i]
	}
	for i, fv := range fn.FreeVars {
		fr.env[fv] = bind[i]
	}
	for _, l := range fn.Locals {
		fr.env[l] = Ptr{ex.newCell(l.Type().(*types.Pointer).Elem())}
	}
	fr.block = fn.Blocks[0]
	for fr.block != nil {
		ex.runFrame(fr)
	}
	return fr.result
}

func (ex *Exec) runFrame(fr *Frame) {
	defer func() {
		if fr.block == nil {
			return
		}
		r := recover()
		tp, ok := r.(*targetPanic)
		if !ok {
			switch r.(type) {
			case unsupported, assumeFailed, pathAbort, unwindFail, solverDied, schedAbort:
				panic(r) // engine-level condition: propagate untouched
			}
			// a fault inside the engine itself (unexpected value shape): make it an unsupported construct with context
			panic(unsupported{fmt.Sprintf("engine fault in %s at %s: %v", fr.fn, ex.posOf(fr, fr.curPos), r)})
		}
		fr.panicking = true
		fr.panicVal = tp
		ex.runDefers(fr)
		// recovered
		fr.block = fr.fn.Recover
		if fr.block == nil {
			// zero results
			res := fr.fn.Signature.Results()
			switch res.Len() {
			case 0:
				fr.result = nil
			case 1:
				fr.result = ex.zero(res.At(0).Type())
			default:
				tv := make(TupleV, res.Len())
				for i := range tv {
					tv[i] = ex.zero(res.At(i).Type())
				}
				fr.result = tv
			}
		}
	}()
	for {
		b := fr.block
		// phis
		nphi := 0
		if len(b.Instrs) > 0 {
			if _, ok := b.Instrs[0].(*ssa.Phi); ok {
				pi := -1
				for i, p := range b.Preds {
					if p == fr.prev {
						pi = i
						break
					}
				}
				var tmp []Value
				for _, ins := range b.Instrs {
					phi, ok := ins.(*ssa.Phi)
					if !ok {
						break
					}
					nphi++
					tmp = append(tmp, ex.val(fr, phi.Edges[pi]))
				}
				for i := 0; i < nphi; i++ {
					fr.env[b.Instrs[i].(*ssa.Phi)] = tmp[i]
				}
			}
		}
		var next *ssa.BasicBlock
		for _, ins := range b.Instrs[nphi:] {
			ex.nInstr++
			ex.pathInstr++
			if ex.pathInstr > ex.maxInstr {
				panic(unwindFail{fmt.Sprintf("instruction budget %d exceeded in %s", ex.maxInstr, fr.fn)})
			}
			if p := ins.Pos(); p != token.NoPos {
				fr.curPos = p
			}
			ex.curFrame = fr
			var ret bool
			if fr.tolerant {
				next, ret = ex.execTolerant(fr, b, ins)
			} else {
				next, ret = ex.execInstr(fr, b, ins)
			}
			if ret {
				return
			}
		}
		fr.prev, fr.block = b, next
	}
}

func (ex *Exec) execTolerant(fr *Frame, b *ssa.BasicBlock, ins ssa.Instruction) (next *ssa.BasicBlock, ret bool) {
	defer func() {
		if r := recover(); r != nil {
			u, ok := r.(unsupported)
			if !ok {
				panic(r)
			}
			ex.initSkipped = append(ex.initSkipped, fmt.Sprintf("%s: %s: %s", fr.fn.Pkg.Pkg.Path(), ex.posOf(fr, ins.Pos()), u.what))
			if v, ok := ins.(ssa.Value); ok {
				fr.env[v] = Poison{u.what}
			}
			if st, ok := ins.(*ssa.Store); ok {
				if g, ok := st.Addr.(*ssa.Global); ok {
					c := ex.globalCell(g)
					poisonCell(c, u.what)
				}
			}
			switch ins.(type) {
			case *ssa.If, *ssa.Jump, *ssa.Return:
				panic(r) // cannot skip control flow
			}
			next, ret = nil, false
		}
	}()
	return ex.execInstr(fr, b, ins)
}

func poisonCell(c *Cell, why string) {
	if c.elems != nil {
		for _, e := range c.elems {
			poisonCell(e, why)
		}
		return
	}
	c.val = Poison{why}
}

func (ex *Exec) execInstr(fr *Frame, b *ssa.BasicBlock, ins ssa.Instruction) (next *ssa.BasicBlock, ret bool) {
	switch ins := ins.(type) {
	case *ssa.If:
		c := ex.val(fr, ins.Cond).(*Term)
		if ex.decide(c) {
			next = b.Succs[0]
		} else {
			next = b.Succs[1]
		}
	case *ssa.Jump:
		next = b.Succs[0]
	case *ssa.Return:
		switch len(ins.Results) {
		case 0:
			fr.result = nil
		case 1:
			fr.result = ex.val(fr, ins.Results[0])
		default:
			tv := make(TupleV, len(ins.Results))
			for i, r := range ins.Results {
				tv[i] = ex.val(fr, r)
			}
			fr.result = tv
		}
		fr.block = nil
		return nil, true
	case *ssa.RunDefers:
		ex.runDefers(fr)
	case *ssa.Panic:
		v := ex.val(fr, ins.X).(IfaceV)
		panic(&targetPanic{v: v, msg: ex.describePanic(v, fr), pos: ex.posOf(fr, ins.Pos()), fn: fr.fn.String()})
	case *ssa.Store:
		p := ex.val(fr, ins.Addr).(Ptr)
		if p.c == nil {
			ex.rtPanic(fr, ins.Pos(), "invalid memory address or nil pointer dereference")
		}
		ex.store(p.c, ex.val(fr, ins.Val))
	case *ssa.MapUpdate:
		m := ex.val(fr, ins.Map).(*MapObj)
		if m == nil {
			ex.rtPanic(fr, ins.Pos(), "assignment to entry in nil map")
		}
		ex.mapUpdate(fr, m, ex.val(fr, ins.Key), ex.val(fr, ins.Value))
	case *ssa.Defer:
		fn, args := ex.prepareCall(fr, &ins.Call)
		fr.defers = append(fr.defers, deferred{fn: fn, args: args, pos: ins.Pos()})
	case *ssa.Go:
		fn, args := ex.prepareCall(fr, &ins.Call)
		ex.spawn(fr, fn, args, ins.Pos())
	case *ssa.Send:
		ex.chanSend(fr, ex.val(fr, ins.Chan).(*ChanObj), ex.val(fr, ins.X), ins.Pos())
	case *ssa.DebugRef:
	case ssa.Value:
		fr.env[ins] = ex.eval(fr, ins)
	default:
		panic(unsupported{fmt.Sprintf("instr %T", ins)})
	}
	return next, false
}

func (ex *Exec) describePanic(v IfaceV, fr *Frame) string {
	if v.typ == nil {
		return "panic(nil)"
	}
	if s, ok := v.v.(StrV); ok && s.sym == nil {
		return s.s
	}
	if msg, ok := ex.errorMessage(v, fr); ok {
		return msg
	}
	return "panic(" + typeStr(v.typ) + ")"
}

func (ex *Exec) runDefers(fr *Frame) {
	for len(fr.defers) > 0 {
		d := fr.defers[len(fr.defers)-1]
		fr.defers = fr.defers[:len(fr.defers)-1]
		func() {
			ok := false
			defer func() {
				if !ok {
					r := recover()
					tp, isT := r.(*targetPanic)
					if !isT {
						panic(r)
					}
					fr.panicking = true
					fr.panicVal = tp
				}
			}()
			ex.callValue(d.fn, d.args, fr, d.pos)
			ok = true
		}()
	}
	if fr.panicking {
		panic(fr.panicVal)
	}
}

func (ex *Exec) prepareCall(fr *Frame, cc *ssa.CallCommon) (*FuncV, []Value) {
	args := make([]Value, 0, len(cc.Args)+1)
	if cc.IsInvoke() {
		recv := ex.val(fr, cc.Value).(IfaceV)
		if recv.typ == nil {
			ex.rtPanic(fr, cc.Pos(), "invalid memory address or nil pointer dereference")
		}
		if fv, ok := ex.specialMethod(recv, cc.Method); ok {
			args = append(args, recv.v)
			for _, a := range cc.Args {
				args = append(args, ex.val(fr, a))
			}
			return fv, args
		}
		fn := ex.prog.LookupMethod(recv.typ, cc.Method.Pkg(), cc.Method.Name())
		if fn == nil {
			panic(unsupported{fmt.Sprintf("no method %s on %s", cc.Method.Name(), recv.typ)})
		}
		args = append(args, recv.v)
		for _, a := range cc.Args {
			args = append(args, ex.val(fr, a))
		}
		return &FuncV{fn: fn}, args
	}
	for _, a := range cc.Args {
		args = append(args, ex.val(fr, a))
	}
	fv, _ := ex.val(fr, cc.Value).(*FuncV)
	if fv == nil {
		ex.rtPanic(fr, cc.Pos(), "invalid memory address or nil pointer dereference")
	}
	return fv, args
}

func (ex *Exec) callValue(fv *FuncV, args []Value, caller *Frame, pos token.Pos) Value {
	switch {
	case fv.nat != nil:
		return fv.nat(ex, args)
	case fv.bi != nil:
		return ex.builtin(fv.bi.Name(), args, caller, pos, nil)
	}
	return ex.callFunction(fv.fn, args, fv.bind, caller, pos)
}

func (ex *Exec) eval(fr *Frame, ins ssa.Value) Value {
	switch ins := ins.(type) {
	case *ssa.Alloc:
		if !ins.Heap {
			// locals are pre-allocated per frame; re-zero on each execution
			p := fr.env[ins].(Ptr)
			ex.store(p.c, ex.zero(p.c.typ))
			return p
		}
		return Ptr{ex.newCell(ins.Type().(*types.Pointer).Elem())}
	case *ssa.FieldAddr:
		p := ex.val(fr, ins.X).(Ptr)
		if p.c == nil {
			ex.rtPanic(fr, ins.Pos(), "invalid memory address or nil pointer dereference")
		}
		if p.c.elems == nil {
			panic(unsupported{"field of opaque " + typeStr(p.c.typ)})
		}
		return Ptr{p.c.elems[ins.Field]}
	case *ssa.Field:
		return ex.val(fr, ins.X).(StructV)[ins.Field]
	case *ssa.UnOp:
		return ex.unop(fr, ins)
	case *ssa.BinOp:
		return ex.binop(fr, ins.Op, ins.X.Type(), ex.val(fr, ins.X), ex.val(fr, ins.Y), ins.Pos())
	case *ssa.MakeInterface:
		return IfaceV{typ: ins.X.Type(), v: ex.val(fr, ins.X)}
	case *ssa.ChangeInterface:
		return ex.val(fr, ins.X)
	case *ssa.ChangeType:
		return ex.val(fr, ins.X)
	case *ssa.Convert:
		return ex.convert(fr, ins.X.Type(), ins.Type(), ex.val(fr, ins.X), ins.Pos())
	case *ssa.MultiConvert:
		return ex.convert(fr, ins.X.Type(), ins.Type(), ex.val(fr, ins.X), ins.Pos())
	case *ssa.Extract:
		return ex.val(fr, ins.Tuple).(TupleV)[ins.Index]
	case *ssa.TypeAssert:
		return ex.typeAssert(fr, ins)
	case *ssa.MakeClosure:
		b := make([]Value, len(ins.Bindings))
		for i, x := range ins.Bindings {
			b[i] = ex.val(fr, x)
		}
		return &FuncV{fn: ins.Fn.(*ssa.Function), bind: b}
	case *ssa.Call:
		fn, args := ex.prepareCall(fr, &ins.Call)
		if fn.bi != nil {
			return ex.builtin(fn.bi.Name(), args, fr, ins.Pos(), ins)
		}
		return ex.callValue(fn, args, fr, ins.Pos())
	case *ssa.MakeSlice:
		n, c := ex.concInt(ex.val(fr, ins.Len), "make len"), ex.concInt(ex.val(fr, ins.Cap), "make cap")
		if n < 0 || c < n || c > 1<<20 {
			ex.rtPanic(fr, ins.Pos(), "makeslice: len out of range")
		}
		et := ins.Type().Underlying().(*types.Slice).Elem()
		arr := make([]*Cell, c)
		for i := range arr {
			arr[i] = ex.newCell(et)
		}
		return SliceV{arr: arr, n: n, cp: c, nonNil: true}
	case *ssa.MakeMap:
		ex.mapCounter++
		return &MapObj{typ: ins.Type().Underlying().(*types.Map), id: ex.mapCounter}
	case *ssa.MakeChan:
		return ex.makeChan(ex.concInt(ex.val(fr, ins.Size), "chan size"), ins.Type())
	case *ssa.IndexAddr:
		return ex.indexAddr(fr, ins)
	case *ssa.Index:
		return ex.index(fr, ins)
	case *ssa.Slice:
		return ex.sliceOp(fr, ins)
	case *ssa.Lookup:
		return ex.lookup(fr, ins)
	case *ssa.Range:
		return ex.rangeIter(fr, ex.val(fr, ins.X), ins.X.Type())
	case *ssa.Next:
		return ex.iterNext(fr, ex.val(fr, ins.Iter).(*IterV), ins)
	case *ssa.Select:
		return ex.selectOp(fr, ins)
	case *ssa.SliceToArrayPointer:
		s := ex.val(fr, ins.X).(SliceV)
		at := ins.Type().(*types.Pointer).Elem().Underlying().(*types.Array)
		if int64(s.n) < at.Len() {
			ex.rtPanic(fr, ins.Pos(), "cannot convert slice to array pointer: length too short")
		}
		if s.isNil() {
			return Ptr{}
		}
		c := &Cell{typ: at, elems: s.arr[s.off : s.off+int(at.Len())]}
		return Ptr{c}
	}
	panic(unsupported{fmt.Sprintf("eval %T", ins)})
}

func (ex *Exec) concInt(v Value, what string) int {
	t := v.(*Term)
	if !t.conc {
		// the path condition may determine the value uniquely (e.g. the length of a decimal rendering once its
		// digit count has been fixed): take the model value and check that no other value is feasible
		if ex.active.check() == "sat" {
			if vals, ok := ex.active.getValues([]*Term{t}); ok {
				c := bvConst(t.w, vals[0])
				if !ex.feasible(tNot(tEq(t, c))) {
					return int(c.sval())
				}
			}
		}
		panic(unsupported{"symbolic " + what})
	}
	return int(t.sval())
}

func (ex *Exec) typeAssert(fr *Frame, ins *ssa.TypeAssert) Value {
	x := ex.val(fr, ins.X).(IfaceV)
	ok := false
	_, toIface := ins.AssertedType.Underlying().(*types.Interface)
	if x.typ != nil {
		if toIface {
			ok = ex.implements(x, ins.AssertedType.Underlying().(*types.Interface))
		} else {
			ok = types.Identical(x.typ, ins.AssertedType)
		}
	}
	var res Value
	if ok {
		if toIface {
			res = x
		} else {
			res = x.v
		}
	} else {
		if !ins.CommaOk {
			from := "nil"
			if x.typ != nil {
				from = typeStr(x.typ)
			}
			ex.rtPanic(fr, ins.Pos(), fmt.Sprintf("interface conversion: interface {} is %s, not %s", from, typeStr(ins.AssertedType)))
		}
		res = ex.zero(ins.AssertedType)
	}
	if ins.CommaOk {
		return TupleV{res, boolConst(ok)}
	}
	return res
}

func (ex *Exec) implements(x IfaceV, it *types.Interface) bool {
	if _, ok := x.v.(RType); ok {
		return it.NumMethods() == 0 || ex.isReflectTypeIface(it)
	}
	return types.Implements(x.typ, it)
}

func (ex *Exec) indexAddr(fr *Frame, ins *ssa.IndexAddr) Value {
	idxT := bvResize(ex.val(fr, ins.Index).(*Term), 64, isSigned(ins.Index.Type()))
	switch x := ex.val(fr, ins.X).(type) {
	case Ptr:
		if x.c == nil {
			ex.rtPanic(fr, ins.Pos(), "invalid memory address or nil pointer dereference")
		}
		idx := ex.boundedIndex(fr, idxT, len(x.c.elems), ins.Pos())
		return Ptr{x.c.elems[idx]}
	case SliceV:
		idx := ex.boundedIndex(fr, idxT, x.n, ins.Pos())
		return Ptr{x.arr[x.off+idx]}
	}
	panic(unsupported{"IndexAddr"})
}

// boundedIndex makes a (possibly symbolic) index concrete: out-of-range is a panic path; in range forks per value.
func (ex *Exec) boundedIndex(fr *Frame, idxT *Term, n int, pos token.Pos) int {
	idxT = bvResize(idxT, 64, true)
	if idxT.conc {
		i := idxT.sval()
		if i < 0 || i >= int64(n) {
			ex.rtPanic(fr, pos, fmt.Sprintf("index out of range [%d] with length %d", i, n))
		}
		return int(i)
	}
	inr := tAnd(bvSle(bvConst(64, 0), idxT), bvSlt(idxT, bvConst(64, uint64(n))))
	if !ex.decide(inr) {
		ex.rtPanic(fr, pos, fmt.Sprintf("index out of range [symbolic] with length %d", n))
	}
	for i := 0; i < n-1; i++ {
		if ex.decide(tEq(idxT, bvConst(64, uint64(i)))) {
			return i
		}
	}
	return n - 1
}

func (ex *Exec) index(fr *Frame, ins *ssa.Index) Value {
	idxT := bvResize(ex.val(fr, ins.Index).(*Term), 64, isSigned(ins.Index.Type()))
	switch x := ex.val(fr, ins.X).(type) {
	case StructV: // array value
		if idxT.conc {
			i := idxT.sval()
			if i < 0 || i >= int64(len(x)) {
				ex.rtPanic(fr, ins.Pos(), "index out of range")
			}
			return x[i]
		}
		// symbolic index into array of scalars: ite chain
		idx64 := idxT
		inr := bvUlt(idx64, bvConst(64, uint64(len(x))))
		if !ex.decide(inr) {
			ex.rtPanic(fr, ins.Pos(), "index out of range")
		}
		if r, ok := x[len(x)-1].(*Term); ok {
			for i := len(x) - 2; i >= 0; i-- {
				r = tIte(tEq(idx64, bvConst(64, uint64(i))), x[i].(*Term), r)
			}
			return r
		}
		return x[ex.boundedIndex(fr, idxT, len(x), ins.Pos())]
	case StrV:
		return ex.strIndex(fr, x, idxT, ins.Pos())
	}
	panic(unsupported{"Index"})
}

func (ex *Exec) sliceOp(fr *Frame, ins *ssa.Slice) Value {
	lo, hi, mx := 0, -1, -1
	if ins.Low != nil {
		lo = ex.concInt(ex.val(fr, ins.Low), "slice low")
	}
	if ins.High != nil {
		hi = ex.concInt(ex.val(fr, ins.High), "slice high")
	}
	if ins.Max != nil {
		mx = ex.concInt(ex.val(fr, ins.Max), "slice max")
	}
	switch x := ex.val(fr, ins.X).(type) {
	case Ptr:
		if x.c == nil {
			ex.rtPanic(fr, ins.Pos(), "invalid memory address or nil pointer dereference")
		}
		n := len(x.c.elems)
		if hi < 0 {
			hi = n
		}
		if mx < 0 {
			mx = n
		}
		if lo < 0 || lo > hi || hi > mx || mx > n {
			ex.rtPanic(fr, ins.Pos(), "slice bounds out of range")
		}
		return SliceV{arr: x.c.elems, off: lo, n: hi - lo, cp: mx - lo, nonNil: true}
	case SliceV:
		if hi < 0 {
			hi = x.n
		}
		if mx < 0 {
			mx = x.cp
		}
		if lo < 0 || lo > hi || hi > mx || mx > x.cp {
			ex.rtPanic(fr, ins.Pos(), fmt.Sprintf("slice bounds out of range [%d:%d] with capacity %d", lo, hi, x.cp))
		}
		if x.isNil() {
			return SliceV{}
		}
		return SliceV{arr: x.arr, off: x.off + lo, n: hi - lo, cp: mx - lo, nonNil: true}
	case StrV:
		return ex.strSlice(fr, x, lo, hi, ins.Pos())
	}
	panic(unsupported{"Slice"})
}

// ---------- function naming helpers ----------

func fnName(fn *ssa.Function) string {
	s := fn.String()
	return s
}

func shortFn(s string) string {
	s = strings.ReplaceAll(s, "go.flow.arcalot.io/pluginsdk/", "")
	return s
}

// lookupMethod finds an exported method of t by name (nil if there is none).
func (ex *Exec) lookupMethod(t types.Type, name string) *ssa.Function {
	sel := ex.prog.MethodSets.MethodSet(t).Lookup(nil, name)
	if sel == nil {
		return nil
	}
	return ex.prog.MethodValue(sel)
}
