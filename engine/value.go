// Engine values and memory cells.
package main

import (
	"fmt"
	"go/types"

	"golang.org/x/tools/go/ssa"
)

type Value interface{}

// Ptr is a pointer: a cell or nil.
type Ptr struct{ c *Cell }

// StrV is a string: concrete when sym == nil.
type StrV struct {
	s   string
	sym *SymStr
}

type symKind uint8

const (
	symUniverse symKind = iota // one of a finite set of concrete strings; idx selects from strs
	symLen                     // opaque content, symbolic length
	symBytes                   // concrete length, symbolic bytes (ASCII)
	symDec                     // decimal rendering of an integer term
	symOpaque                  // nothing known (formatted messages)
	symConcat                  // lazy concatenation of parts (lowered to bytes only when bytes are needed)
)

type SymStr struct {
	kind   symKind
	idx    *Term    // symUniverse: BV32 index into strs
	strs   []string // symUniverse
	length *Term    // symLen: BV64
	bytes  []*Term  // symBytes: BV8 each
	val    *Term    // symDec: integer term
	signed bool     // symDec
	id     int64
	name   string // nondet name for symLen (native side builds a string of that length)
	lowered *SymStr // symDec: byte-level form, created on first use
	parts   []StrV  // symConcat
}

// IfaceV is an interface value; typ == nil is the nil interface.
type IfaceV struct {
	typ types.Type
	v   Value
}

// StructV holds struct fields or array elements by value (immutable once built).
type StructV []Value
type TupleV []Value

type FuncV struct {
	fn   *ssa.Function
	bind []Value
	bi   *ssa.Builtin
	nat  func(ex *Exec, args []Value) Value // engine-provided function value
	name string
}

type SliceV struct {
	arr    []*Cell
	off, n int
	cp     int
	nonNil bool // distinguishes empty non-nil slices from nil
}

func (s SliceV) isNil() bool { return s.arr == nil && !s.nonNil }

type MapEntry struct {
	key Value
	val Value
}
type MapObj struct {
	typ     *types.Map
	entries []MapEntry
	frozen  bool
	id      int64
}

// NativeV wraps an opaque native Go object (compiled regexps and the like).
type NativeV struct{ v interface{} }

type Cell struct {
	typ    types.Type
	val    Value
	elems  []*Cell
	frozen uint8 // 0 no, 1 argument, 2 schema/global
	parent *Cell
	label  string
}

// iterator over a map or string
type IterV struct {
	m     *MapObj
	keys  []MapEntry // snapshot
	pos   int
	str   string
	isStr bool
	perm  bool // symbolic order
}

type undoRec struct {
	c    *Cell
	old  Value
	m    *MapObj
	ents []MapEntry
	fz   *Cell
	fzo  uint8
	mfz  *MapObj
	ch   *ChanObj
	chOld chanState
}

func (ex *Exec) setCell(c *Cell, v Value) {
	if ex.journalOn {
		ex.journal = append(ex.journal, undoRec{c: c, old: c.val})
	}
	c.val = v
}

func (ex *Exec) setMapEntries(m *MapObj, ents []MapEntry) {
	if ex.journalOn {
		ex.journal = append(ex.journal, undoRec{m: m, ents: m.entries})
	}
	m.entries = ents
}

func (ex *Exec) rollback(to int) {
	for i := len(ex.journal) - 1; i >= to; i-- {
		r := ex.journal[i]
		switch {
		case r.c != nil:
			r.c.val = r.old
		case r.m != nil:
			r.m.entries = r.ents
		case r.fz != nil:
			r.fz.frozen = r.fzo
		case r.mfz != nil:
			r.mfz.frozen = false
		case r.ch != nil:
			r.ch.buf, r.ch.closed, r.ch.recvWaiting, r.ch.handoff = r.chOld.buf, r.chOld.closed, r.chOld.recvWaiting, r.chOld.handoff
		}
	}
	ex.journal = ex.journal[:to]
}

func isOpaqueType(t types.Type) bool {
	n, ok := t.(*types.Named)
	if !ok {
		return false
	}
	if n.Obj().Pkg() == nil {
		return false
	}
	switch n.Obj().Pkg().Path() + "." + n.Obj().Name() {
	case "regexp.Regexp", "reflect.Value", "reflect.rtype", "sync.Mutex", "sync.RWMutex", "sync.WaitGroup", "sync.Once",
		"github.com/fxamacker/cbor/v2.Encoder", "github.com/fxamacker/cbor/v2.Decoder", "time.Time", "time.Timer", "bufio.Writer":
		return true
	}
	return false
}

func (ex *Exec) zero(t types.Type) Value {
	if isOpaqueType(t) {
		return ex.zeroOpaque(t)
	}
	switch u := t.Underlying().(type) {
	case *types.Basic:
		switch {
		case u.Info()&types.IsBoolean != 0:
			return termFalse
		case u.Info()&types.IsInteger != 0:
			return bvConst(width(u), 0)
		case u.Info()&types.IsFloat != 0:
			if u.Kind() == types.Float32 {
				return fpConst32(0)
			}
			return fpConst64(0)
		case u.Info()&types.IsString != 0:
			return StrV{}
		case u.Kind() == types.UnsafePointer:
			return Ptr{}
		case u.Kind() == types.UntypedNil:
			return nil
		}
	case *types.Pointer:
		return Ptr{}
	case *types.Interface:
		return IfaceV{}
	case *types.Struct:
		sv := make(StructV, u.NumFields())
		for i := range sv {
			sv[i] = ex.zero(u.Field(i).Type())
		}
		return sv
	case *types.Array:
		sv := make(StructV, u.Len())
		for i := range sv {
			sv[i] = ex.zero(u.Elem())
		}
		return sv
	case *types.Slice:
		return SliceV{}
	case *types.Map:
		return (*MapObj)(nil)
	case *types.Signature:
		return (*FuncV)(nil)
	case *types.Chan:
		return (*ChanObj)(nil)
	case *types.Tuple:
		tv := make(TupleV, u.Len())
		for i := range tv {
			tv[i] = ex.zero(u.At(i).Type())
		}
		return tv
	}
	panic(unsupported{"zero of " + t.String()})
}

func (ex *Exec) zeroOpaque(t types.Type) Value {
	n := t.(*types.Named)
	switch n.Obj().Pkg().Path() + "." + n.Obj().Name() {
	case "reflect.Value":
		return RVal{}
	}
	return NativeV{nil}
}

func width(b *types.Basic) int {
	switch b.Kind() {
	case types.Int8, types.Uint8:
		return 8
	case types.Int16, types.Uint16:
		return 16
	case types.Int32, types.Uint32:
		return 32
	default:
		return 64
	}
}

func isSigned(t types.Type) bool {
	b, ok := t.Underlying().(*types.Basic)
	return ok && b.Info()&types.IsInteger != 0 && b.Info()&types.IsUnsigned == 0
}
func isInteger(t types.Type) bool {
	b, ok := t.Underlying().(*types.Basic)
	return ok && b.Info()&types.IsInteger != 0
}
func isFloat(t types.Type) bool {
	b, ok := t.Underlying().(*types.Basic)
	return ok && b.Info()&types.IsFloat != 0
}
func isString(t types.Type) bool {
	b, ok := t.Underlying().(*types.Basic)
	return ok && b.Info()&types.IsString != 0
}
func isBool(t types.Type) bool {
	b, ok := t.Underlying().(*types.Basic)
	return ok && b.Info()&types.IsBoolean != 0
}
func isInterface(t types.Type) bool {
	_, ok := t.Underlying().(*types.Interface)
	return ok
}
func floatWidth(t types.Type) int {
	if b, ok := t.Underlying().(*types.Basic); ok && b.Kind() == types.Float32 {
		return 32
	}
	return 64
}

func (ex *Exec) newCell(t types.Type) *Cell {
	c := &Cell{typ: t}
	if !isOpaqueType(t) {
		switch u := t.Underlying().(type) {
		case *types.Struct:
			c.elems = make([]*Cell, u.NumFields())
			for i := range c.elems {
				c.elems[i] = ex.newCell(u.Field(i).Type())
				c.elems[i].parent = c
			}
			return c
		case *types.Array:
			if u.Len() > 1<<16 {
				panic(unsupported{"huge array"})
			}
			c.elems = make([]*Cell, u.Len())
			for i := range c.elems {
				c.elems[i] = ex.newCell(u.Elem())
				c.elems[i].parent = c
			}
			return c
		}
	}
	c.val = ex.zero(t)
	return c
}

func (ex *Exec) newCellVal(t types.Type, v Value) *Cell {
	c := ex.newCell(t)
	ex.store(c, v)
	return c
}

func load(c *Cell) Value {
	if c.elems != nil {
		sv := make(StructV, len(c.elems))
		for i, e := range c.elems {
			sv[i] = load(e)
		}
		return sv
	}
	if p, ok := c.val.(Poison); ok {
		panic(unsupported{"read of poisoned cell (" + p.why + ")"})
	}
	return c.val
}

func (ex *Exec) store(c *Cell, v Value) {
	if c.elems != nil {
		sv, ok := v.(StructV)
		if !ok {
			panic(fmt.Sprintf("store of %T into aggregate cell %s", v, c.typ))
		}
		for i, e := range c.elems {
			ex.store(e, sv[i])
		}
		return
	}
	if c.frozen != 0 {
		ex.frozenWrite(c, v)
	}
	ex.setCell(c, v)
}

func typeStr(t types.Type) string {
	if t == nil {
		return "<nil>"
	}
	return types.TypeString(t, func(p *types.Package) string { return p.Name() })
}
