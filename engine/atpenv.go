// Environment model for the ATP layer: message-granularity pipes and the CBOR encoder/decoder API on top of them
// (DESIGN §2.7: cbor.Encoder.Encode / cbor.Decoder.Decode / cbor.Unmarshal are environment stubs). One Encode
// hands one message value to the pipe; one Decode takes one. Byte-level framing is outside the model.
package main

import (
	"fmt"
	"go/token"
	"go/types"
	"reflect"
	"strings"

	"golang.org/x/tools/go/ssa"
)

type MsgPipe struct {
	id           int64
	queue        []pipeMsg
	enq, deq     int
	writerClosed bool
	readerClosed bool
	garbage      bool // the stream has turned to garbage: every further Decode fails
	buffered     bool
	readErr      string
	// Eraser state of the writers of this pipe since verifEncodeLockBegin: the locks held (by any goroutine: a
	// parent holding the lock while its helper encodes also serialises) at every Encode so far
	lockGen   int
	lockCand  map[*Cell]bool
	lockCount int
	lockBad   bool
}

type pipeMsg struct {
	v      IfaceV
	poison bool
}

type rawPayload struct {
	v   IfaceV
	bad bool
}

var pipeMarker = types.NewNamed(types.NewTypeName(token.NoPos, nil, "verifPipeEnd", nil), types.NewStruct(nil, nil), nil)
var decModeMarker = types.NewNamed(types.NewTypeName(token.NoPos, nil, "verifDecMode", nil), types.NewStruct(nil, nil), nil)

func (ex *Exec) newPipe(buffered bool) (r, w IfaceV) {
	ex.mapCounter++
	p := &MsgPipe{id: ex.mapCounter, buffered: buffered}
	mk := func(kind string) IfaceV {
		o := &NatObj{kind: kind, data: p}
		o.call = func(ex *Exec, m string, a []Value) Value {
			switch m {
			case "Close":
				if kind == "pipeR" {
					p.readerClosed = true
				} else {
					p.writerClosed = true
				}
				ex.yield("pipe close")
				return IfaceV{}
			case "Read", "Write":
				panic(unsupported{"byte-level I/O on a message pipe (" + m + ")"})
			}
			panic(unsupported{"pipe." + m})
		}
		return IfaceV{typ: pipeMarker, v: o}
	}
	return mk("pipeR"), mk("pipeW")
}

// findPipe locates a pipe end of the wanted kind inside a value (the end itself, or a struct wrapping both ends).
func (ex *Exec) findPipe(v Value, kind string, depth int) *MsgPipe {
	if depth > 4 {
		return nil
	}
	switch x := v.(type) {
	case IfaceV:
		if x.typ == nil {
			return nil
		}
		return ex.findPipe(x.v, kind, depth+1)
	case *NatObj:
		if x.kind == kind {
			return x.data.(*MsgPipe)
		}
	case Ptr:
		if x.c != nil && !isOpaqueType(x.c.typ) {
			return ex.findPipe(load(x.c), kind, depth+1)
		}
	case StructV:
		for _, f := range x {
			if p := ex.findPipe(f, kind, depth+1); p != nil {
				return p
			}
		}
	}
	return nil
}

func (ex *Exec) ioEOF() IfaceV {
	p := ex.prog.ImportedPackage("io")
	if p == nil {
		return ex.makeErrorValue("EOF")
	}
	g, ok := p.Members["EOF"].(*ssa.Global)
	if !ok {
		return ex.makeErrorValue("EOF")
	}
	v, _ := load(ex.globalCell(g)).(IfaceV)
	if v.typ == nil {
		return ex.makeErrorValue("EOF")
	}
	return v
}

func (ex *Exec) atpAPI(name string, args []Value, fr *Frame, pos token.Pos) (Value, bool) {
	switch name {
	case "verifNewPipe":
		r, w := ex.newPipe(false)
		return TupleV{r, w}, true
	case "verifPipeGarbage":
		// the writer side injects garbage: the reader's decoder fails from here on
		p := ex.findPipe(args[0], "pipeW", 0)
		if p == nil {
			panic(pathAbort{"verifPipeGarbage: not a pipe write end"})
		}
		p.queue = append(p.queue, pipeMsg{poison: true})
		p.enq++
		ex.yield("pipe garbage")
		return nil, true
	case "verifPipeFailReads":
		p := ex.findPipe(args[0], "pipeR", 0)
		if p == nil {
			panic(pathAbort{"verifPipeFailReads: not a pipe read end"})
		}
		p.readErr = "injected read error"
		ex.yield("pipe fail")
		return nil, true
	case "verifEncodesUnlocked":
		return bvConst(64, uint64(ex.encodesUnlocked)), true
	case "verifEncodeLockBegin":
		ex.encodesUnlocked = 0
		ex.encLockGen++
		return nil, true
	case "verifEncodeLockCheck":
		id := ex.concName(args[0])
		ex.addEvent("sharedcheck", id, nil)
		if ex.encodesUnlocked > 0 {
			m, _, _ := ex.model(nil)
			ex.recordCE("sharedwrite", id, fmt.Sprintf("%d encoder(s) shared by several writers have no common mutex over their Encode calls", ex.encodesUnlocked), ex.posOf(fr, pos), "", m)
		}
		return nil, true
	}
	return nil, false
}

func (ex *Exec) cborCall(full string, fn *ssa.Function, args []Value, fr *Frame, pos token.Pos) Value {
	short := strings.ReplaceAll(full, "github.com/fxamacker/cbor/", "")
	switch short {
	case "v2.NewEncoder":
		p := ex.findPipe(args[0], "pipeW", 0)
		if p == nil {
			panic(unsupported{"cbor.NewEncoder on something that is not a message pipe"})
		}
		return ex.nativePtr("github.com/fxamacker/cbor/v2", "Encoder", p)
	case "v2.NewDecoder":
		p := ex.findPipe(args[0], "pipeR", 0)
		if p == nil {
			panic(unsupported{"cbor.NewDecoder on something that is not a message pipe"})
		}
		return ex.nativePtr("github.com/fxamacker/cbor/v2", "Decoder", p)
	case "(v2.DecOptions).DecMode":
		o := &NatObj{kind: "decmode"}
		o.call = func(ex *Exec, m string, a []Value) Value {
			switch m {
			case "NewDecoder":
				p := ex.findPipe(a[0], "pipeR", 0)
				if p == nil {
					panic(unsupported{"DecMode.NewDecoder on something that is not a message pipe"})
				}
				return ex.nativePtr("github.com/fxamacker/cbor/v2", "Decoder", p)
			case "Unmarshal":
				return ex.cborUnmarshal(a[0], a[1], fr, pos)
			}
			panic(unsupported{"cbor.DecMode." + m})
		}
		return TupleV{IfaceV{typ: decModeMarker, v: o}, IfaceV{}}
	case "(*v2.Encoder).Encode":
		return ex.cborEncode(args[0], args[1].(IfaceV), fr, pos)
	case "(*v2.Decoder).Decode":
		return ex.cborDecode(args[0], args[1].(IfaceV), fr, pos)
	case "v2.Unmarshal":
		return ex.cborUnmarshal(args[0], args[1], fr, pos)
	}
	panic(unsupported{"cbor op " + full})
}

func (ex *Exec) pipeOf(v Value, fr *Frame, pos token.Pos) *MsgPipe {
	p := v.(Ptr)
	if p.c == nil {
		ex.rtPanic(fr, pos, "invalid memory address or nil pointer dereference")
	}
	n, _ := p.c.val.(NativeV)
	mp, _ := n.v.(*MsgPipe)
	if mp == nil {
		panic(unsupported{"cbor encoder/decoder without a pipe"})
	}
	return mp
}

func (ex *Exec) cborEncode(enc Value, v IfaceV, fr *Frame, pos token.Pos) Value {
	p := ex.pipeOf(enc, fr, pos)
	if ex.encLockGen > 0 {
		held := map[*Cell]bool{}
		for _, l := range ex.heldLocks() {
			held[l] = true
		}
		if ex.sched != nil {
			for _, g := range ex.sched.gs {
				if !g.done {
					for _, l := range g.held {
						held[l] = true
					}
				}
			}
		}
		if p.lockGen != ex.encLockGen {
			p.lockGen, p.lockCand, p.lockCount, p.lockBad = ex.encLockGen, held, 0, false
		} else {
			for l := range p.lockCand {
				if !held[l] {
					delete(p.lockCand, l)
				}
			}
		}
		p.lockCount++
		if p.lockCount >= 2 && len(p.lockCand) == 0 && !p.lockBad {
			p.lockBad = true
			ex.encodesUnlocked++
		}
	}
	ex.yield("encode")
	if p.readerClosed || p.writerClosed {
		return ex.makeErrorValue("io: read/write on closed pipe")
	}
	p.queue = append(p.queue, pipeMsg{v: ex.snapshotIface(v, 0)})
	p.enq++
	ticket := p.enq
	ex.yield("encoded")
	if !p.buffered {
		// an unbuffered pipe: the write returns when the reader has taken the message (or gone away)
		ex.blockUntil(func() bool { return p.deq >= ticket || p.readerClosed }, fmt.Sprintf("pipe #%d write (reader has not consumed)", p.id))
		if p.deq < ticket {
			return ex.makeErrorValue("io: read/write on closed pipe")
		}
	}
	return IfaceV{}
}

func (ex *Exec) cborDecode(dec Value, target IfaceV, fr *Frame, pos token.Pos) Value {
	p := ex.pipeOf(dec, fr, pos)
	ex.yield("decode")
	ex.blockUntil(func() bool { return len(p.queue) > 0 || p.writerClosed || p.readerClosed || p.readErr != "" }, fmt.Sprintf("pipe #%d read", p.id))
	if p.readErr != "" {
		return ex.makeErrorValue(p.readErr)
	}
	if p.readerClosed {
		return ex.makeErrorValue("io: read/write on closed pipe")
	}
	if len(p.queue) == 0 {
		return ex.ioEOF()
	}
	m := p.queue[0]
	if m.poison {
		p.garbage = true
		return ex.makeErrorValue("cbor: invalid data (stream turned to garbage)")
	}
	p.queue = append([]pipeMsg{}, p.queue[1:]...)
	p.deq++
	tp, ok := target.v.(Ptr)
	if !ok || tp.c == nil {
		return ex.makeErrorValue("cbor: Unmarshal(non-pointer or nil)")
	}
	if err := ex.decodeInto(tp.c, m.v, fr); err != "" {
		ex.yield("decoded")
		return ex.makeErrorValue("cbor: " + err)
	}
	ex.yield("decoded")
	return IfaceV{}
}

func (ex *Exec) cborUnmarshal(raw Value, target Value, fr *Frame, pos token.Pos) Value {
	sl, ok := raw.(SliceV)
	if !ok || sl.n == 0 {
		return ex.ioEOF()
	}
	n, _ := sl.arr[sl.off].val.(NativeV)
	rp, ok := n.v.(rawPayload)
	if !ok {
		panic(unsupported{"cbor.Unmarshal of real bytes"})
	}
	if rp.bad {
		return ex.makeErrorValue("cbor: cannot decode payload")
	}
	tv, _ := target.(IfaceV)
	tp, ok := tv.v.(Ptr)
	if !ok || tp.c == nil {
		return ex.makeErrorValue("cbor: Unmarshal(non-pointer or nil)")
	}
	if err := ex.decodeInto(tp.c, rp.v, fr); err != "" {
		return ex.makeErrorValue("cbor: " + err)
	}
	return IfaceV{}
}

// cborIsEmpty: the encoder's notion of empty for omitempty (concrete values only; a symbolic value counts as present)
func cborIsEmpty(v Value) bool {
	switch x := v.(type) {
	case nil:
		return true
	case *Term:
		return x.conc && x.sort != SFP && x.cv == 0
	case StrV:
		return x.sym == nil && x.s == ""
	case IfaceV:
		return x.typ == nil
	case Ptr:
		return x.c == nil
	case SliceV:
		return x.n == 0
	case *MapObj:
		return x == nil || len(x.entries) == 0
	}
	return false
}

func cborFieldName(st *types.Struct, i int) string {
	tag := reflect.StructTag(st.Tag(i)).Get("cbor")
	if tag != "" {
		if j := strings.Index(tag, ","); j >= 0 {
			tag = tag[:j]
		}
		if tag != "" {
			return tag
		}
	}
	return st.Field(i).Name()
}

// snapshotIface deep-copies a message at encode time (later mutation by the sender must not reach the receiver).
func (ex *Exec) snapshotIface(v IfaceV, depth int) IfaceV {
	if v.typ == nil {
		return v
	}
	return IfaceV{typ: v.typ, v: ex.snapshot(v.v, depth+1)}
}

func (ex *Exec) snapshot(v Value, depth int) Value {
	if depth > 30 {
		panic(unsupported{"message too deep"})
	}
	switch x := v.(type) {
	case IfaceV:
		return ex.snapshotIface(x, depth)
	case StructV:
		out := make(StructV, len(x))
		for i := range x {
			out[i] = ex.snapshot(x[i], depth+1)
		}
		return out
	case SliceV:
		if x.isNil() {
			return x
		}
		arr := make([]*Cell, x.n)
		for i := 0; i < x.n; i++ {
			c := x.arr[x.off+i]
			arr[i] = &Cell{typ: c.typ, val: ex.snapshot(load(c), depth+1)}
			if c.elems != nil {
				arr[i] = ex.newCellVal(c.typ, ex.snapshot(load(c), depth+1))
			}
		}
		return SliceV{arr: arr, n: x.n, cp: x.n, nonNil: true}
	case *MapObj:
		if x == nil {
			return x
		}
		ex.mapCounter++
		m := &MapObj{typ: x.typ, id: ex.mapCounter}
		for _, e := range x.entries {
			m.entries = append(m.entries, MapEntry{ex.snapshot(e.key, depth+1), ex.snapshot(e.val, depth+1)})
		}
		return m
	case Ptr:
		if x.c == nil {
			return x
		}
		return Ptr{ex.newCellVal(x.c.typ, ex.snapshot(load(x.c), depth+1))}
	}
	return v
}

var anyType = types.NewInterfaceType(nil, nil)

// normalise: what decoding a CBOR item into an `any` yields.
func (ex *Exec) cborNormalise(v IfaceV, fr *Frame) IfaceV {
	if v.typ == nil {
		return v
	}
	switch x := v.v.(type) {
	case *Term:
		switch {
		case x.sort == SBV && isInteger(v.typ):
			if isSigned(v.typ) {
				w := bvResize(x, 64, true)
				if ex.decide(bvSlt(w, bvConst(64, 0))) {
					return IfaceV{typ: types.Typ[types.Int64], v: w}
				}
				return IfaceV{typ: types.Typ[types.Uint64], v: w}
			}
			return IfaceV{typ: types.Typ[types.Uint64], v: bvResize(x, 64, false)}
		case x.sort == SFP:
			return IfaceV{typ: types.Typ[types.Float64], v: fpToFP(x, 64)}
		case x.sort == SBool:
			return IfaceV{typ: types.Typ[types.Bool], v: x}
		}
	case StrV:
		return IfaceV{typ: types.Typ[types.String], v: x}
	case SliceV:
		if b, ok := v.typ.Underlying().(*types.Slice).Elem().Underlying().(*types.Basic); ok && b.Kind() == types.Uint8 {
			return v // byte string
		}
		st := types.NewSlice(anyType)
		arr := make([]*Cell, x.n)
		for i := 0; i < x.n; i++ {
			arr[i] = &Cell{typ: anyType, val: ex.cborNormalise(ex.asIface(load(x.arr[x.off+i]), x.arr[x.off+i].typ), fr)}
		}
		return IfaceV{typ: st, v: SliceV{arr: arr, n: x.n, cp: x.n, nonNil: true}}
	case *MapObj:
		mt := types.NewMap(anyType, anyType)
		ex.mapCounter++
		m := &MapObj{typ: mt, id: ex.mapCounter}
		if x != nil {
			for _, e := range x.entries {
				m.entries = append(m.entries, MapEntry{ex.cborNormalise(ex.asIface(e.key, x.typ.Key()), fr), ex.cborNormalise(ex.asIface(e.val, x.typ.Elem()), fr)})
			}
		}
		return IfaceV{typ: mt, v: m}
	case StructV:
		st, ok := v.typ.Underlying().(*types.Struct)
		if !ok {
			break
		}
		mt := types.NewMap(anyType, anyType)
		ex.mapCounter++
		m := &MapObj{typ: mt, id: ex.mapCounter}
		for i := range x {
			if !st.Field(i).Exported() {
				continue
			}
			m.entries = append(m.entries, MapEntry{IfaceV{typ: types.Typ[types.String], v: StrV{s: cborFieldName(st, i)}}, ex.cborNormalise(ex.asIface(x[i], st.Field(i).Type()), fr)})
		}
		return IfaceV{typ: mt, v: m}
	case Ptr:
		if x.c == nil {
			return IfaceV{}
		}
		return ex.cborNormalise(ex.asIface(load(x.c), x.c.typ), fr)
	}
	panic(unsupported{"cbor normalisation of " + typeStr(v.typ)})
}

func (ex *Exec) asIface(v Value, t types.Type) IfaceV {
	if iv, ok := v.(IfaceV); ok {
		return iv
	}
	return IfaceV{typ: t, v: v}
}

// decodeInto stores the encoded value src into the target cell as the CBOR decoder would; "" on success.
func (ex *Exec) decodeInto(target *Cell, src IfaceV, fr *Frame) string {
	t := target.typ
	// cbor.RawMessage: keep the payload as an opaque handle
	if n, ok := t.(*types.Named); ok && n.Obj().Name() == "RawMessage" {
		c := &Cell{typ: types.Typ[types.Uint8], val: NativeV{rawPayload{v: src}}}
		ex.store(target, SliceV{arr: []*Cell{c}, n: 1, cp: 1, nonNil: true})
		return ""
	}
	if isInterface(t) {
		ex.store(target, ex.cborNormalise(src, fr))
		return ""
	}
	if src.typ == nil {
		ex.store(target, ex.zero(t))
		return ""
	}
	switch tu := t.Underlying().(type) {
	case *types.Struct:
		// source: a struct (fields by cbor name) or a map with string keys
		get := func(name string) (IfaceV, bool) { return IfaceV{}, false }
		switch sv := src.v.(type) {
		case StructV:
			sst, ok := src.typ.Underlying().(*types.Struct)
			if !ok {
				return "cannot unmarshal into Go struct"
			}
			get = func(name string) (IfaceV, bool) {
				for i := 0; i < sst.NumFields(); i++ {
					if cborFieldName(sst, i) == name {
						// omitempty: an empty value is not on the wire, the receiver's field keeps what it had
						if strings.Contains(reflect.StructTag(sst.Tag(i)).Get("cbor"), ",omitempty") && cborIsEmpty(sv[i]) {
							return IfaceV{}, false
						}
						return ex.asIface(sv[i], sst.Field(i).Type()), true
					}
				}
				return IfaceV{}, false
			}
		case *MapObj:
			get = func(name string) (IfaceV, bool) {
				if sv == nil {
					return IfaceV{}, false
				}
				for _, e := range sv.entries {
					k := e.key
					if ki, ok := k.(IfaceV); ok {
						k = ki.v
					}
					if ks, ok := k.(StrV); ok && ks.sym == nil && ks.s == name {
						return ex.asIface(e.val, sv.typ.Elem()), true
					}
				}
				return IfaceV{}, false
			}
		default:
			return "cannot unmarshal " + typeStr(src.typ) + " into Go value of type " + typeStr(t)
		}
		for i := 0; i < tu.NumFields(); i++ {
			if !tu.Field(i).Exported() {
				continue
			}
			fv, ok := get(cborFieldName(tu, i))
			if !ok {
				continue
			}
			if err := ex.decodeInto(target.elems[i], fv, fr); err != "" {
				return err
			}
		}
		return ""
	case *types.Basic:
		sv, ok := src.v.(*Term)
		switch {
		case tu.Info()&types.IsInteger != 0 && ok && sv.sort == SBV && isInteger(src.typ):
			ex.store(target, bvResize(sv, width(tu), isSigned(src.typ)))
			return ""
		case tu.Info()&types.IsFloat != 0 && ok && sv.sort == SFP:
			ex.store(target, fpToFP(sv, floatWidth(t)))
			return ""
		case tu.Info()&types.IsBoolean != 0 && ok && sv.sort == SBool:
			ex.store(target, sv)
			return ""
		case tu.Info()&types.IsString != 0:
			if s, ok := src.v.(StrV); ok {
				ex.store(target, s)
				return ""
			}
		}
		return "cannot unmarshal " + typeStr(src.typ) + " into Go value of type " + typeStr(t)
	}
	panic(unsupported{"cbor decode into " + typeStr(t)})
}
