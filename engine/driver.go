// Driver: load the current /repo tree with harness overlays, explore every harness entry of a property, replay
// witnesses and counterexamples natively, match known findings, write evidence.
package main

import (
	"bufio"
	"crypto/sha1"
	"encoding/json"
	"flag"
	"fmt"
	"os"
	"os/exec"
	"path/filepath"
	"regexp"
	"runtime"
	"sort"
	"strconv"
	"strings"
	"sync"
	"sync/atomic"
	"time"

	"golang.org/x/tools/go/packages"
	"golang.org/x/tools/go/ssa"
	"golang.org/x/tools/go/ssa/ssautil"
)

// repoDir is the tree under verification: /repo, or the scratch worktree named by VERIF_REPO (used to run the
// checks against seeded changes without touching /repo).
var repoDir = envOr("VERIF_REPO", "/repo")

const verifDir = "/verif"

type Finding struct {
	Kind     string // finding | fixed
	Property string
	ID       string
	Where    string
	Explains []string
	Commit   string
	seen     bool
}

type targetPkg struct {
	name    string // harness dir name
	path    string // import path
	dir     string // directory in repo
	modDir  string // module root to load from
	pkgName string
}

var targets = makeTargets()

func makeTargets() map[string]targetPkg {
	return map[string]targetPkg{
	"schema":  {"schema", "go.flow.arcalot.io/pluginsdk/schema", repoDir + "/schema", repoDir, "schema"},
	"atp":     {"atp", "go.flow.arcalot.io/pluginsdk/atp", repoDir + "/atp", repoDir, "atp"},
	"codegen": {"codegen", "codegen", repoDir + "/cmd/arcaflow-codegen", repoDir + "/cmd/arcaflow-codegen", "main"},
	}
}

func goEnv() []string {
	env := os.Environ()
	env = append(env, "GOFLAGS=-mod=mod", "GOPROXY=off", "GOSUMDB=off", "GOTOOLCHAIN=local")
	return env
}

type mutation struct{ file, old, new string }

func parseMutations(ms []string) []mutation {
	var out []mutation
	for _, m := range ms {
		parts := strings.SplitN(m, "|", 3)
		if len(parts) != 3 {
			fatalf("bad -mutate %q (want file|old|new)", m)
		}
		f := parts[0]
		if !filepath.IsAbs(f) {
			f = filepath.Join(repoDir, f)
		}
		out = append(out, mutation{f, parts[1], parts[2]})
	}
	return out
}

func fatalf(format string, a ...interface{}) {
	fmt.Fprintf(os.Stderr, "gosmt: "+format+"\n", a...)
	os.Exit(2)
}

// buildOverlay returns virtual path -> content for the harness files of the given target packages plus mutations.
func buildOverlay(pkgs []targetPkg, muts []mutation) map[string][]byte {
	ov := map[string][]byte{}
	for _, tp := range pkgs {
		files, _ := filepath.Glob(filepath.Join(verifDir, "harness", tp.name, "*.go"))
		for _, f := range files {
			b, err := os.ReadFile(f)
			if err != nil {
				fatalf("%v", err)
			}
			ov[filepath.Join(tp.dir, filepath.Base(f))] = b
		}
		for _, tmpl := range []string{"zz_verif_api.go", "zz_verif_replay_test.go"} {
			b, err := os.ReadFile(filepath.Join(verifDir, "harness", "common", tmpl+".tmpl"))
			if err != nil {
				fatalf("%v", err)
			}
			ov[filepath.Join(tp.dir, tmpl)] = []byte(strings.Replace(string(b), "package PKGNAME", "package "+tp.pkgName, 1))
		}
	}
	for _, m := range muts {
		src, ok := ov[m.file]
		if !ok {
			b, err := os.ReadFile(m.file)
			if err != nil {
				fatalf("mutation target: %v", err)
			}
			src = b
		}
		if !strings.Contains(string(src), m.old) {
			fatalf("mutation target text not found in %s: %q", m.file, m.old)
		}
		ov[m.file] = []byte(strings.Replace(string(src), m.old, m.new, 1))
	}
	return ov
}

type loaded struct {
	prog  *ssa.Program
	pkgs  map[string]*ssa.Package // by target name
	loadS float64
}

func loadProgram(tps []targetPkg, ov map[string][]byte) *loaded {
	t0 := time.Now()
	res := &loaded{pkgs: map[string]*ssa.Package{}}
	// group by module dir
	byMod := map[string][]targetPkg{}
	for _, tp := range tps {
		byMod[tp.modDir] = append(byMod[tp.modDir], tp)
	}
	var all []*packages.Package
	for mod, list := range byMod {
		// test files must not be part of the SSA load
		lov := map[string][]byte{}
		for k, v := range ov {
			if !strings.HasSuffix(k, "_test.go") {
				lov[k] = v
			}
		}
		cfg := &packages.Config{Mode: packages.LoadAllSyntax, Dir: mod, Overlay: lov, Env: goEnv()}
		var pats []string
		for _, tp := range list {
			if tp.name == "codegen" {
				pats = append(pats, ".")
			} else {
				pats = append(pats, tp.path)
			}
		}
		pkgs, err := packages.Load(cfg, pats...)
		if err != nil {
			fatalf("load: %v", err)
		}
		if packages.PrintErrors(pkgs) > 0 {
			fatalf("the harness does not type-check against the current tree (see errors above)")
		}
		all = append(all, pkgs...)
	}
	prog, spkgs := ssautil.AllPackages(all, ssa.InstantiateGenerics)
	prog.Build()
	for i, p := range all {
		for _, tp := range tps {
			if p.PkgPath == tp.path || (tp.name == "codegen" && p.Name == "main") {
				res.pkgs[tp.name] = spkgs[i]
			}
		}
	}
	res.prog = prog
	res.loadS = time.Since(t0).Seconds()
	return res
}

type workItem struct {
	entry  *ssa.Function
	prefix []int
}

type entryStats struct {
	name     string
	paths    int
	outcomes map[string]int
	reach    map[string]int
	details  map[string]int
}

type runStats struct {
	mu         sync.Mutex
	results    []*PathResult
	entries    map[string]*entryStats
	instr      int
	queries    int
	solverS    float64
	assertQ    int
	assertConcTrue, assertConcFalse int
	assertUns  int
	assertSat  int
	unknown    int
	funcs      map[string]bool
	stubs      map[string]int
	initSkip   map[string]bool
	truncated  bool
	crossAgree int
	crossDis   int
	crossUnk   int
	primaryUnknown int
	fallback   map[string]int
}

func explore(ld *loaded, entries []*ssa.Function, cfg *Config, workers int, maxPaths int) *runStats {
	st := &runStats{entries: map[string]*entryStats{}, funcs: map[string]bool{}, stubs: map[string]int{}, initSkip: map[string]bool{}, fallback: map[string]int{}}
	for _, e := range entries {
		st.entries[e.Name()] = &entryStats{name: e.Name(), outcomes: map[string]int{}, reach: map[string]int{}, details: map[string]int{}}
	}
	var mu sync.Mutex
	cond := sync.NewCond(&mu)
	var stack []workItem
	for i := len(entries) - 1; i >= 0; i-- {
		stack = append(stack, workItem{entries[i], nil})
	}
	active := 0
	total := 0
	var wg sync.WaitGroup
	for w := 0; w < workers; w++ {
		wg.Add(1)
		go func(w int) {
			defer wg.Done()
			var ex *Exec
			for {
				mu.Lock()
				for len(stack) == 0 && active > 0 {
					cond.Wait()
				}
				if len(stack) == 0 {
					mu.Unlock()
					break
				}
				it := stack[len(stack)-1]
				stack = stack[:len(stack)-1]
				active++
				total++
				over := total > maxPaths || time.Now().After(exploreDeadline)
				mu.Unlock()
				if over {
					mu.Lock()
					st.truncated = true
					active--
					stack = nil
					cond.Broadcast()
					mu.Unlock()
					continue
				}
				if ex == nil || ex.solver.dead {
					if ex != nil {
						ex.close()
					}
					ex = newExec(ld.prog, pkgOf(it.entry), cfg)
					for _, p := range ld.pkgs {
						ex.targetPkgs[p.Pkg.Path()] = true
					}
				}
				res, pending := ex.runPath(it.entry, it.prefix)
				res.Detail = strings.TrimSpace(res.Detail)
				mu.Lock()
				for _, p := range pending {
					stack = append(stack, workItem{it.entry, p})
				}
				active--
				cond.Broadcast()
				mu.Unlock()
				st.mu.Lock()
				es := st.entries[it.entry.Name()]
				es.paths++
				es.outcomes[res.Outcome]++
				if res.Outcome != "OK" && res.Outcome != "DEAD" {
					es.details[res.Outcome+": "+res.Detail]++
				}
				for _, e := range res.Events {
					if e.Kind == "reach" || e.Kind == "cover" {
						es.reach[e.ID]++
					}
					if e.Kind == "crossagree" {
						st.crossAgree++
					}
					if e.Kind == "crossunknown" {
						st.crossUnk++
					}
					if e.Kind == "crossdisagree" {
						st.crossDis++
					}
				}
				res.Detail = it.entry.Name() + ": " + res.Detail
				st.results = append(st.results, res)
				st.mu.Unlock()
			}
			if ex != nil {
				st.mu.Lock()
				st.instr += ex.nInstr
				st.queries += ex.solver.queries
				st.solverS += ex.solver.dur.Seconds()
				if ex.solver2 != nil {
					st.queries += ex.solver2.queries
					st.solverS += ex.solver2.dur.Seconds()
				}
				st.assertQ += ex.nAssertQ
				st.assertConcTrue += ex.nAssertConcTrue
				st.assertConcFalse += ex.nAssertConcFalse
				st.assertUns += ex.nAssertUnsat
				st.assertSat += ex.nAssertSat
				st.unknown += ex.nUnknown
				st.primaryUnknown += ex.solver.nUnknown
				for k, v := range ex.fallbackUsed {
					st.fallback[k] += v
				}
				for _, fb := range ex.fallbacks {
					st.queries += fb.queries
					st.solverS += fb.dur.Seconds()
				}
				if ex.intSolver != nil {
					st.queries += ex.intSolver.queries
					st.solverS += ex.intSolver.dur.Seconds()
					st.fallback["cvc5-int:incremental-queries"] += ex.intSolver.queries
				}
				for f := range ex.funcsSeen {
					st.funcs[shortFn(f.String())] = true
				}
				for k, v := range ex.stubsHit {
					st.stubs[k] += v
				}
				for _, s := range ex.initSkipped {
					st.initSkip[s] = true
				}
				st.mu.Unlock()
				ex.close()
			}
		}(w)
	}
	wg.Wait()
	return st
}

// ---------- native replay ----------

type replayVector struct {
	ID     string            `json:"id"`
	Entry  string            `json:"entry"`
	Tier   int               `json:"tier"`
	Inputs map[string]string `json:"inputs"`
	Repeat int               `json:"repeat"`
}

type nativeEvent struct {
	Kind string `json:"kind"`
	ID   string `json:"id"`
	Val  string `json:"val"`
}

type nativeOutcome struct {
	ID      string          `json:"id"`
	Events  []nativeEvent   `json:"events"`
	Panic   string          `json:"panic"`
	Stack   string          `json:"stack"`
	Dead    bool            `json:"dead"`
	Missing []string        `json:"missing"`
	Runs    []nativeOutcome `json:"runs"`
	Crash   string          `json:"crash,omitempty"`
}

var batchCounter int64
var exploreDeadline time.Time

type replayer struct {
	extraEnv []string
	patient bool // the next batch is a patient re-run of one vector
	work   string
	bin    map[string]string // target name -> test binary
	ov     map[string][]byte
	buildS float64
	err    error
}

func newReplayer(ov map[string][]byte) *replayer {
	base := filepath.Join(verifDir, ".work")
	os.MkdirAll(base, 0o755)
	// remove scratch directories left behind by runs that were killed (older than 30 minutes)
	if ents, err := os.ReadDir(base); err == nil {
		for _, e := range ents {
			if fi, err := e.Info(); err == nil && strings.HasPrefix(e.Name(), "replay-") && time.Since(fi.ModTime()) > 30*time.Minute {
				os.RemoveAll(filepath.Join(base, e.Name()))
			}
		}
	}
	work, err := os.MkdirTemp(base, "replay-")
	if err != nil {
		fatalf("%v", err)
	}
	return &replayer{work: work, bin: map[string]string{}, ov: ov}
}

func (r *replayer) cleanup() { os.RemoveAll(r.work) }

func (r *replayer) build(tp targetPkg) error { return r.buildMode(tp, false) }

func (r *replayer) buildMode(tp targetPkg, race bool) error {
	key := tp.name
	if race {
		key += "+race"
	}
	if _, ok := r.bin[key]; ok {
		return nil
	}
	t0 := time.Now()
	repl := map[string]string{}
	i := 0
	for virt, content := range r.ov {
		real := filepath.Join(r.work, fmt.Sprintf("ov%d_%s", i, filepath.Base(virt)))
		i++
		if err := os.WriteFile(real, content, 0o644); err != nil {
			return err
		}
		repl[virt] = real
	}
	ovj, _ := json.Marshal(map[string]interface{}{"Replace": repl})
	ovFile := filepath.Join(r.work, "overlay.json")
	os.WriteFile(ovFile, ovj, 0o644)
	bin := filepath.Join(r.work, key+".test")
	cmd := exec.Command("go", "test", "-c", "-vet=off", "-overlay", ovFile, "-o", bin, ".")
	if race {
		cmd = exec.Command("go", "test", "-c", "-race", "-vet=off", "-overlay", ovFile, "-o", bin, ".")
	}
	cmd.Dir = tp.dir
	cmd.Env = goEnv()
	out, err := cmd.CombinedOutput()
	r.buildS += time.Since(t0).Seconds()
	if err != nil {
		return fmt.Errorf("native build failed: %v\n%s", err, trunc(string(out), 4000))
	}
	r.bin[key] = bin
	return nil
}

// runRace executes one vector under the race detector, repeatedly; it reports the detector's first warning.
func (r *replayer) runRace(tp targetPkg, v replayVector) (string, bool, error) {
	if err := r.buildMode(tp, true); err != nil {
		return "", false, err
	}
	v.Repeat = 10
	in := filepath.Join(r.work, fmt.Sprintf("race-%d.json", time.Now().UnixNano()))
	out := in + ".out"
	b, _ := json.Marshal([]replayVector{v})
	os.WriteFile(in, b, 0o644)
	cmd := exec.Command(r.bin[tp.name+"+race"], "-test.run", "^TestVerifReplay$", "-test.timeout", "120s")
	cmd.Dir = tp.dir
	cmd.Env = append(goEnv(), "VERIF_REPLAY_IN="+in, "VERIF_REPLAY_OUT="+out, "GORACE=halt_on_error=0")
	cout, _ := cmd.CombinedOutput()
	os.Remove(in)
	os.Remove(out)
	txt := string(cout)
	if i := strings.Index(txt, "WARNING: DATA RACE"); i >= 0 {
		rep := txt[i:]
		if j := strings.Index(rep, "=================="); j > 0 {
			rep = rep[:j]
		}
		var keep []string
		for _, l := range strings.Split(rep, "\n") {
			l = strings.TrimSpace(l)
			if l == "" || strings.HasPrefix(l, "runtime.") || strings.HasPrefix(l, "testing.") {
				continue
			}
			keep = append(keep, l)
			if len(keep) > 14 {
				break
			}
		}
		return strings.Join(keep, " | "), true, nil
	}
	return "race detector reported nothing in 10 runs", false, nil
}

func (r *replayer) runBatch(tp targetPkg, vecs []replayVector, timeout time.Duration) ([]nativeOutcome, string, error) {
	if err := r.build(tp); err != nil {
		return nil, "", err
	}
	in := filepath.Join(r.work, fmt.Sprintf("in-%d-%s.json", atomic.AddInt64(&batchCounter, 1), vecs[0].ID))
	out := in + ".out"
	b, _ := json.Marshal(vecs)
	os.WriteFile(in, b, 0o644)
	cmd := exec.Command(r.bin[tp.name], "-test.run", "^TestVerifReplay$", "-test.timeout", timeout.String())
	cmd.Dir = tp.dir
	cmd.Env = append(goEnv(), "VERIF_REPLAY_IN="+in, "VERIF_REPLAY_OUT="+out)
	cmd.Env = append(cmd.Env, r.extraEnv...)
	if r.patient {
		// a patient re-run of a single vector: the per-vector watchdog is raised with the process limit
		cmd.Env = append(cmd.Env, "VERIF_REPLAY_VECTIMEOUT="+(timeout-20*time.Second).String())
	}
	cout, err := cmd.CombinedOutput()
	ob, rerr := os.ReadFile(out)
	os.Remove(in)
	os.Remove(out)
	if rerr != nil {
		tail := string(cout)
		if len(tail) > 3000 {
			tail = tail[:1500] + "\n...\n" + tail[len(tail)-1500:]
		}
		return nil, tail, fmt.Errorf("native run produced no output (%v)", err)
	}
	var outs []nativeOutcome
	if err := json.Unmarshal(ob, &outs); err != nil {
		return nil, "", err
	}
	return outs, "", nil
}

// run executes vectors; if the batch crashes (stack overflow, hang, fatal error) the vectors are run one by one so
// that the crashing ones are identified.
func (r *replayer) run(tp targetPkg, vecs []replayVector) (map[string]*nativeOutcome, error) {
	res := map[string]*nativeOutcome{}
	if len(vecs) == 0 {
		return res, nil
	}
	if err := r.build(tp); err != nil {
		return nil, err
	}
	// the batch is split over parallel processes (harnesses may sleep natively); a process that ends early (a vector
	// hangs under the native watchdog, or the process dies) leaves vectors without outcome: they are re-chunked
	for round := 0; round < 8 && len(vecs) > 0; round++ {
		nchunks := runtime.NumCPU()
		if len(vecs) < 4*nchunks {
			nchunks = 1
		}
		if round > 0 && len(vecs) > 1 {
			nchunks = runtime.NumCPU()
			if nchunks > len(vecs) {
				nchunks = len(vecs)
			}
		}
		per := (len(vecs) + nchunks - 1) / nchunks
		var cmu sync.Mutex
		var cwg sync.WaitGroup
		before := len(res)
		for i := 0; i < len(vecs); i += per {
			j := i + per
			if j > len(vecs) {
				j = len(vecs)
			}
			cwg.Add(1)
			go func(chunk []replayVector) {
				defer cwg.Done()
				outs, _, err := r.runBatch(tp, chunk, 10*time.Minute)
				cmu.Lock()
				defer cmu.Unlock()
				if err != nil {
					return
				}
				for i := range outs {
					res[outs[i].ID] = &outs[i]
				}
			}(vecs[i:j])
		}
		cwg.Wait()
		var rest []replayVector
		for _, v := range vecs {
			if res[v.ID] == nil {
				rest = append(rest, v)
			}
		}
		vecs = rest
		if len(res) == before {
			break // no progress: a process dies without output; identify the vectors one by one
		}
	}
	if len(vecs) == 0 {
		return res, nil
	}
	// bisect: individually, in parallel
	var mu sync.Mutex
	sem := make(chan struct{}, runtime.NumCPU())
	var wg sync.WaitGroup
	for _, v := range vecs {
		wg.Add(1)
		sem <- struct{}{}
		go func(v replayVector) {
			defer wg.Done()
			defer func() { <-sem }()
			o, tail, err := r.runBatch(tp, []replayVector{v}, 30*time.Second)
			mu.Lock()
			defer mu.Unlock()
			if err != nil || len(o) != 1 {
				res[v.ID] = &nativeOutcome{ID: v.ID, Crash: "process crashed or timed out: " + lastLines(tail, 12)}
				return
			}
			res[v.ID] = &o[0]
		}(v)
	}
	wg.Wait()
	return res, nil
}

func lastLines(s string, n int) string {
	ls := strings.Split(strings.TrimSpace(s), "\n")
	// prefer the first lines (fatal error / panic header) plus goroutine header
	if len(ls) > n {
		ls = ls[:n]
	}
	return strings.Join(ls, " | ")
}

// ---------- known findings ----------

func loadFindings() []*Finding {
	f, err := os.Open(filepath.Join(verifDir, "known_findings.txt"))
	if err != nil {
		return nil
	}
	defer f.Close()
	var out []*Finding
	re := regexp.MustCompile(`(\w+)=("[^"]*"|\S+)`)
	sc := bufio.NewScanner(f)
	for sc.Scan() {
		line := strings.TrimSpace(sc.Text())
		if line == "" || strings.HasPrefix(line, "#") {
			continue
		}
		var fd Finding
		switch {
		case strings.HasPrefix(line, "finding:"):
			fd.Kind = "finding"
		case strings.HasPrefix(line, "fixed:"):
			fd.Kind = "fixed"
		default:
			continue
		}
		for _, m := range re.FindAllStringSubmatch(line, -1) {
			v := strings.Trim(m[2], `"`)
			switch m[1] {
			case "property":
				fd.Property = v
			case "id":
				fd.ID = v
			case "where":
				fd.Where = v
			case "explains":
				fd.Explains = strings.Split(v, ",")
			case "commit":
				fd.Commit = v
			}
		}
		out = append(out, &fd)
	}
	return out
}

func (f *Finding) explains(ce *CounterExample) bool {
	for _, e := range f.Explains {
		switch {
		case e == ce.ID:
			return true
		case ce.Kind == "panic" && e == "panic:"+shortFn(ce.Func):
			return true
		case ce.Kind == "panic" && strings.HasPrefix(e, "panic:") && strings.HasSuffix(e, "*") && strings.HasPrefix("panic:"+shortFn(ce.Func), strings.TrimSuffix(e, "*")):
			return true
		case e == ce.Kind+":*":
			return true
		}
	}
	return false
}

// ---------- evidence ----------

type evidence struct {
	PropertyID  string                 `json:"property_id"`
	Tier        string                 `json:"tier"`
	Seed        int                    `json:"seed"`
	Level       string                 `json:"level"`
	Coverage    map[string]interface{} `json:"coverage"`
	Assumptions []string               `json:"assumptions"`
	WallS       float64                `json:"wall_s"`
	Violations  int                    `json:"violations"`
}

func propTargets(prop string) []targetPkg {
	switch prop {
	case "C05", "C06", "C07", "C08":
		return []targetPkg{targets["atp"], targets["schema"]}
	case "C19":
		return []targetPkg{targets["codegen"]}
	}
	return []targetPkg{targets["schema"]}
}

type multiFlag []string

func (m *multiFlag) String() string     { return strings.Join(*m, ";") }
func (m *multiFlag) Set(s string) error { *m = append(*m, s); return nil }

func runMain() {
	if len(os.Args) < 2 {
		fatalf("usage: gosmt check|replay|list ...")
	}
	switch os.Args[1] {
	case "check", "list":
		runCheck(os.Args[1], os.Args[2:])
	case "replay":
		runReplayCmd(os.Args[2:])
	default:
		fatalf("unknown command %s", os.Args[1])
	}
}

func runCheck(mode string, args []string) {
	fs := flag.NewFlagSet("check", flag.ExitOnError)
	prop := fs.String("prop", "", "property id (C01..C19)")
	tier := fs.String("tier", envOr("VERIF_TIER", "quick"), "quick|thorough")
	entryRe := fs.String("entry", "", "only entries matching this regexp")
	workers := fs.Int("workers", runtime.NumCPU(), "parallel workers")
	verbose := fs.Bool("v", false, "verbose")
	noReplay := fs.Bool("noreplay", false, "skip native replay (violations are then unconfirmed and not reported)")
	solver := fs.String("solver", "cvc5", "cvc5|z3|z3-new")
	cross := fs.String("cross", "", "second solver for assertion queries")
	timeout := fs.Duration("timeout", 0, "per-query solver timeout")
	maxPaths := fs.Int("maxpaths", 0, "path limit")
	maxTime := fs.Duration("maxtime", 0, "wall-clock limit for the exploration phase")
	noEvidence := fs.Bool("noevidence", false, "do not write the evidence file")
	var muts multiFlag
	fs.Var(&muts, "mutate", "file|old|new (self-test: overlay a mutated source file)")
	fs.Parse(args)
	if *prop == "" {
		fatalf("-prop required")
	}
	t0 := time.Now()
	seed, _ := strconv.Atoi(os.Getenv("VERIF_SEED"))
	tierN := 0
	if *tier == "thorough" {
		tierN = 1
	}
	if *timeout == 0 {
		*timeout = 20 * time.Second
		if tierN == 1 {
			*timeout = 300 * time.Second
		}
	}
	if *maxPaths == 0 {
		*maxPaths = 60000
		if tierN == 1 {
			*maxPaths = 600000
		}
	}
	if *maxTime == 0 {
		*maxTime = 12 * time.Minute
		if tierN == 1 {
			*maxTime = 90 * time.Minute
		}
	}
	exploreDeadline = time.Now().Add(*maxTime)
	if tierN == 1 && *cross == "" && os.Getenv("VERIF_NOCROSS") == "" {
		*cross = "z3-new"
	}
	tps := propTargets(*prop)
	mutations := parseMutations(muts)
	ov := buildOverlay(tps, mutations)
	ld := loadProgram(tps, ov)
	var entries []*ssa.Function
	entryPkg := map[string]targetPkg{}
	var re *regexp.Regexp
	if *entryRe != "" {
		re = regexp.MustCompile(*entryRe)
	}
	for _, tp := range tps {
		p := ld.pkgs[tp.name]
		if p == nil {
			fatalf("package %s not loaded", tp.name)
		}
		var names []string
		for name, m := range p.Members {
			if _, ok := m.(*ssa.Function); ok && strings.HasPrefix(name, "Verif"+*prop+"_") {
				if re == nil || re.MatchString(name) {
					names = append(names, name)
				}
			}
		}
		sort.Strings(names)
		for _, n := range names {
			entries = append(entries, p.Func(n))
			entryPkg[n] = tp
		}
	}
	if mode == "list" {
		for _, e := range entries {
			fmt.Println(e.Name())
		}
		return
	}
	if len(entries) == 0 {
		fatalf("no harness entries for %s", *prop)
	}
	findings := loadFindings()
	open := map[string]*Finding{}
	for _, f := range findings {
		if f.Kind == "finding" && f.Property == *prop {
			open[f.ID] = f
		}
	}
	ptime := 4 * time.Second
	if tierN == 1 {
		ptime = 30 * time.Second
	}
	cfg := &Config{Tier: tierN, Solver: *solver, Timeout: *timeout, PrimaryTimeout: ptime, CrossSolver: *cross, MaxInstr: 3000000, MaxDepth: 220, Verbose: *verbose, OpenKnown: open}
	fmt.Printf("gosmt: property %s tier %s: %d entries, load+SSA %.1fs, %d workers, solver %s\n", *prop, *tier, len(entries), ld.loadS, *workers, *solver)
	st := explore(ld, entries, cfg, *workers, *maxPaths)
	exploreS := time.Since(t0).Seconds()

	// ---- summarise exploration
	nPaths, nOK, nUnsup, nUnwind, nPanic, nDead, nAbort, nDecis, nDeadlock := 0, 0, 0, 0, 0, 0, 0, 0, 0
	for _, r := range st.results {
		nPaths++
		nDecis += r.Decis
		switch r.Outcome {
		case "OK":
			nOK++
		case "UNSUPPORTED":
			nUnsup++
		case "UNWIND":
			nUnwind++
		case "DEADLOCK":
			nDeadlock++
		case "PANIC":
			nPanic++
		case "DEAD":
			nDead++
		case "ABORT":
			nAbort++
		}
	}
	broken := []string{}
	var enames []string
	for n := range st.entries {
		enames = append(enames, n)
	}
	sort.Strings(enames)
	for _, n := range enames {
		es := st.entries[n]
		fmt.Printf("  %-40s paths=%d %v\n", n, es.paths, es.outcomes)
		var ds []string
		for d := range es.details {
			ds = append(ds, d)
		}
		sort.Strings(ds)
		for i, d := range ds {
			if i >= 8 && !*verbose {
				fmt.Printf("      ... %d more\n", len(ds)-i)
				break
			}
			fmt.Printf("      %d x %s\n", es.details[d], trunc(d, 400))
		}
		nReach := 0
		for id, c := range es.reach {
			if c > 0 && !strings.HasPrefix(id, "cover:") {
				nReach++
			}
		}
		if nReach == 0 {
			broken = append(broken, n+": no verifReach label reached on any feasible path (vacuous harness)")
		}
	}

	if os.Getenv("VERIF_DUMPPATHS") != "" {
		for _, r := range st.results {
			fmt.Printf("PATH %s outcome=%s inputs=%v prefix=%v\n", r.Detail, r.Outcome, r.Inputs, r.Prefix)
			for i, e := range r.Events {
				v, id := "", e.ID
				if i < len(r.EventVal) {
					v = r.EventVal[i]
				}
				if i < len(r.EventID) {
					id = r.EventID[i]
				}
				fmt.Printf("    %s %s = %s\n", e.Kind, id, v)
			}
		}
	}
	// ---- native replay
	type pending struct {
		res *PathResult
		ce  *CounterExample
		vec replayVector
		tp  targetPkg
	}
	var wit, ces []*pending
	witLimit := 4000
	if tierN == 1 {
		witLimit = 20000
	}
	nw := 0
	nPanicWit := 0
	ceClass := map[string]int{}
	for _, r := range st.results {
		entry := strings.SplitN(r.Detail, ":", 2)[0]
		tp := entryPkg[entry]
		if r.Outcome == "PANIC" {
			nPanicWit++
		}
		schedDependent := false
		for _, ce := range r.CEs {
			if len(ce.Pauses) > 0 {
				schedDependent = true // predicted failure needs the preemptions: confirmed through the counterexample, not as a witness
			}
		}
		if r.HasModel && !schedDependent && (r.Outcome == "OK" || (r.Outcome == "PANIC" && nPanicWit <= 40 && !r.Concurrent)) && nw < witLimit && !strings.Contains(entry, "NoReplay") {
			rep := 1
			if r.Orders {
				rep = 6
			}
			wit = append(wit, &pending{res: r, tp: tp, vec: replayVector{ID: fmt.Sprintf("w%d", nw), Entry: entry, Tier: tierN, Inputs: r.Inputs, Repeat: rep}})
			nw++
		}
		for _, ce := range r.CEs {
			ck := ce.Entry + "|" + ce.Kind + "|" + ce.ID + "|" + ce.Pos + "|" + strings.Join(ce.Known, ",")
			if len(ce.Pauses) > 0 {
				// schedule-dependent: candidates of one class differ in where the preemption was; natively only some
				// of those places can carry a pause, so up to 16 candidates with distinct preemption points are tried
				sig := ck
				for _, pp := range ce.Pauses {
					sig += fmt.Sprintf("|%s:%d:%s", pp.File, pp.Line, pp.Kind)
				}
				ceClass[sig]++
				if ceClass[sig] > 1 {
					continue
				}
				ceClass[ck]++
				if ceClass[ck] > 16 {
					continue
				}
			} else {
				ceClass[ck]++
				if ceClass[ck] > 5 {
					continue
				}
			}
			ce.Mutation = strings.Join(muts, ";")
			rep := 1
			if ce.Orders {
				rep = 300
			}
			if ce.Inputs == nil {
				ce.Inputs = map[string]string{}
			}
			ces = append(ces, &pending{res: r, ce: ce, tp: tp, vec: replayVector{ID: fmt.Sprintf("c%d", len(ces)), Entry: entry, Tier: tierN, Inputs: ce.Inputs, Repeat: rep}})
		}
	}
	matched, mismatched := 0, 0
	patientRuns := 0
	var mismatchNotes []string
	confirmed := map[*CounterExample]string{}
	spurious := 0
	replayS := 0.0
	var rp *replayer
	if !*noReplay && (len(wit) > 0 || len(ces) > 0) {
		tr := time.Now()
		rp = newReplayer(ov)
		defer rp.cleanup()
		byT := map[string][]*pending{}
		for _, p := range append(append([]*pending{}, wit...), ces...) {
			byT[p.tp.name] = append(byT[p.tp.name], p)
		}
		for tn, ps := range byT {
			// witnesses and counterexamples run in separate processes: a counterexample may kill its process
			var wvecs, cvecs []replayVector
			for _, p := range ps {
				if p.ce == nil && p.res.Outcome == "OK" {
					wvecs = append(wvecs, p.vec)
				} else {
					cvecs = append(cvecs, p.vec)
				}
			}
			outs, err := rp.run(targets[tn], wvecs)
			if err == nil {
				var couts map[string]*nativeOutcome
				couts, err = rp.run(targets[tn], cvecs)
				for k, v := range couts {
					outs[k] = v
				}
			}
			if err != nil {
				broken = append(broken, "native replay unavailable: "+err.Error())
				continue
			}
			for _, p := range ps {
				o := outs[p.vec.ID]
				if o == nil {
					continue
				}
				if p.ce == nil {
					if strings.Contains(o.Crash, "(hang)") && p.res.Outcome == "OK" && patientRuns < 3 {
						patientRuns++
						// the engine predicts a normal end and the native run hit the 25 s watchdog: before calling it
						// a mismatch, run the vector alone with a patient limit (a loaded machine must not break a check)
						rp.patient = true
						if o2, _, err2 := rp.runBatch(targets[tn], []replayVector{p.vec}, 4*time.Minute); err2 == nil && len(o2) == 1 {
							o = &o2[0]
						}
						rp.patient = false
					}
					ok, note := compareWitness(p.res, o)
					if ok {
						matched++
					} else {
						mismatched++
						if len(mismatchNotes) < 12 {
							mismatchNotes = append(mismatchNotes, fmt.Sprintf("%s inputs=%v: %s", p.vec.Entry, p.vec.Inputs, note))
						}
					}
				} else if (p.ce.Kind == "deadlock" || p.ce.Kind == "leak") && len(p.ce.Pauses) == 0 && (o.Crash != "" || o.Panic != "") {
					// time is not modelled: code that gives up waiting after a timeout and panics shows up as a panic natively
					confirmed[p.ce] = "native run (no preemption needed): " + trunc(o.Crash+o.Panic, 400)
				} else if p.ce.Kind == "deadlock" || p.ce.Kind == "leak" {
					why, ok, err := confirmBySchedule(targets[tn], ov, p.ce, p.vec)
					if err != nil {
						fmt.Printf("  WARNING: schedule replay unavailable for %s: %v\n", p.ce.Entry, err)
						spurious++
					} else if ok {
						confirmed[p.ce] = why
					} else {
						spurious++
						fmt.Printf("  WARNING: %s not reproduced natively with pauses at %v: %s\n", p.ce.Kind, p.ce.Pauses, trunc(why, 300))
					}
				} else if p.ce.Kind == "sharedwrite" {
					why, ok, err := rp.runRace(targets[tn], p.vec)
					if err != nil {
						broken = append(broken, "race replay unavailable: "+err.Error())
					} else if ok {
						confirmed[p.ce] = "go test -race: " + why
					} else {
						spurious++
						fmt.Printf("  WARNING: unsynchronised shared write not confirmed by the race detector: %s: %s (%s)\n", p.ce.Entry, trunc(p.ce.Msg, 300), why)
					}
				} else if why, ok := confirmCE(p.ce, o); ok {
					confirmed[p.ce] = why
				} else if why2, ok2, err2 := confirmBySchedule(targets[tn], ov, p.ce, p.vec); len(p.ce.Pauses) > 0 && err2 == nil && ok2 {
					confirmed[p.ce] = why2
				} else {
					spurious++
					sched := ""
					if p.res != nil && p.res.Concurrent && len(p.ce.Pauses) == 0 {
						sched = "; no preemption point recorded for this schedule"
					}
					if len(p.ce.Pauses) > 0 {
						sched = fmt.Sprintf("; with pauses at %v: %s %v", p.ce.Pauses, trunc(why2, 200), err2)
					}
					fmt.Printf("  WARNING: counterexample not reproduced natively (spurious, engine or stub imprecision): %s %s %s inputs=%v native=%s%s\n", p.ce.Entry, p.ce.Kind, p.ce.ID, p.ce.Inputs, trunc(why, 300), sched)
				}
			}
		}
		replayS = time.Since(tr).Seconds()
	}
	if st.crossDis > 0 {
		broken = append(broken, fmt.Sprintf("%d assertion queries answered unsat by %s are not unsat for %s: inconclusive", st.crossDis, cfg.Solver, *cross))
	}
	if mismatched > 0 {
		for _, n := range mismatchNotes {
			fmt.Printf("  MISMATCH (engine prediction differs from native run): %s\n", trunc(n, 700))
		}
		broken = append(broken, fmt.Sprintf("%d witness paths did not replay identically on the native build (engine/model defect: these paths do not count as verified)", mismatched))
	}

	// ---- classify confirmed counterexamples
	violations := 0
	type vio struct {
		ce  *CounterExample
		why string
	}
	var newV []vio
	seenKey := map[string]bool{}
	for _, p := range ces {
		why, ok := confirmed[p.ce]
		if !ok {
			continue
		}
		attributed := false
		for _, kid := range p.ce.Known {
			if f := open[kid]; f != nil && f.explains(p.ce) {
				f.seen = true
				attributed = true
			}
		}
		if attributed {
			continue
		}
		key := p.ce.Entry + "|" + p.ce.Kind + "|" + p.ce.ID + "|" + p.ce.Pos
		if seenKey[key] {
			continue
		}
		seenKey[key] = true
		newV = append(newV, vio{p.ce, why})
	}
	var fids []string
	for id := range open {
		fids = append(fids, id)
	}
	sort.Strings(fids)
	for _, id := range fids {
		f := open[id]
		if f.seen {
			fmt.Printf("KNOWN-FINDING: property=%s %s: %s\n", f.Property, f.ID, f.Where)
		} else if *entryRe == "" && !*noReplay {
			fmt.Printf("NOTE: known finding %s was not reproduced by this run (stale entry?)\n", f.ID)
		}
	}
	os.MkdirAll(filepath.Join(verifDir, "replays"), 0o755)
	var vioSamples []interface{}
	for _, v := range newV {
		violations++
		b, _ := json.MarshalIndent(v.ce, "", " ")
		h := sha1.Sum(b)
		path := filepath.Join(verifDir, "replays", fmt.Sprintf("%s-%x.json", *prop, h[:6]))
		os.WriteFile(path, b, 0o644)
		fmt.Printf("  violation: %s %s %s: %s inputs=%v native: %s\n", v.ce.Entry, v.ce.Kind, v.ce.ID, trunc(v.ce.Msg, 300), v.ce.Inputs, trunc(v.why, 300))
		fmt.Printf("VIOLATION property=%s replay=%s\n", *prop, path)
		if len(vioSamples) < 5 {
			vioSamples = append(vioSamples, v.ce)
		}
	}

	// ---- evidence
	var samples []interface{}
	for _, p := range wit {
		if len(samples) >= 6 {
			break
		}
		if len(p.res.Inputs) > 0 {
			samples = append(samples, map[string]interface{}{"entry": p.vec.Entry, "outcome": p.res.Outcome, "inputs": p.res.Inputs, "decisions": p.res.Prefix})
		}
	}
	if len(samples) == 0 {
		for _, r := range st.results {
			if len(samples) >= 3 {
				break
			}
			samples = append(samples, map[string]interface{}{"entry": r.Detail, "outcome": r.Outcome, "decisions": r.Prefix})
		}
	}
	samples = append(samples, vioSamples...)
	var funcs []string
	for f := range st.funcs {
		if !strings.Contains(f, "Verif") && (strings.HasPrefix(f, "schema.") || strings.HasPrefix(f, "(schema.") || strings.HasPrefix(f, "(*schema.") ||
			strings.Contains(f, "atp.") || strings.HasPrefix(f, "codegen.") || strings.HasPrefix(f, "command-line-arguments.")) {
			funcs = append(funcs, f)
		}
	}
	sort.Strings(funcs)
	var stubs []string
	for s, n := range st.stubs {
		stubs = append(stubs, fmt.Sprintf("%s x%d", s, n))
	}
	sort.Strings(stubs)
	var reachAll []string
	for _, n := range enames {
		for id, c := range st.entries[n].reach {
			reachAll = append(reachAll, fmt.Sprintf("%s:%s=%d", n, id, c))
		}
	}
	sort.Strings(reachAll)
	var skips []string
	for s := range st.initSkip {
		skips = append(skips, s)
	}
	sort.Strings(skips)
	wall := time.Since(t0).Seconds()
	ev := evidence{PropertyID: *prop, Tier: *tier, Seed: seed, Level: "model_checking", WallS: wall, Violations: violations,
		Coverage: map[string]interface{}{
			"states":                        max(nOK+nPanic+nDeadlock, 0),
			"paths_deadlock":                nDeadlock,
			"transitions":                   nDecis,
			"traces_validated_against_impl": matched,
			"samples":                       samples,
			"obligations":                   st.assertQ + st.assertConcTrue + st.assertConcFalse + nPaths - nDead,
			"discharged":                    st.assertUns + st.assertConcTrue + nOK,
			"path_outcome_obligations":      nPaths - nDead,
			"assertion_queries":             st.assertQ,
			"assertion_queries_unsat":       st.assertUns,
			"assertions_decided_by_path":    st.assertConcTrue + st.assertConcFalse,
			"explanation": "bounded symbolic model checking of the real code: go/ssa of the current /repo tree is executed symbolically by gosmt; states = completed feasible paths (each is one class of inputs decided by the solver for all values inside it), transitions = branch/shape decisions taken, obligations = assertion instances over all paths: either a solver query (pc AND NOT assertion; assertion_queries) or an assertion whose condition is already a constant on its path because the branch decisions that fix it were each decided by a solver feasibility query (assertions_decided_by_path); discharged = unsat answers + constants true; in addition every feasible path carries one outcome obligation (it must end normally: no PANIC, UNWIND, DEADLOCK or unsupported construct), discharged by an OK outcome (path_outcome_obligations), traces_validated = per-path solver witnesses re-executed on the natively compiled code with identical observables",
			"exhaustive":             !st.truncated && nUnsup == 0 && nAbort == 0 && st.unknown == 0,
			"truncated_by_limit":     st.truncated,
			"paths_total":            nPaths,
			"paths_ok":               nOK,
			"paths_panic":            nPanic,
			"paths_assume_dead":      nDead,
			"paths_unsupported":      nUnsup,
			"paths_unwind":           nUnwind,
			"paths_aborted":          nAbort,
			"assertion_queries_sat":  st.assertSat,
			"solver_unknown":         st.unknown,
			"primary_solver_unknown_retried": st.primaryUnknown,
			"fallback_solver_answers": st.fallback,
			"solver_queries":         st.queries,
			"solver_seconds":         round2(st.solverS),
			"solver":                 *solver,
			"cross_solver":           *cross,
			"cross_agree":            st.crossAgree,
			"cross_disagree":         st.crossDis,
			"cross_unknown":          st.crossUnk,
			"instructions_interpreted": st.instr,
			"witness_mismatches":     mismatched,
			"counterexamples_spurious": spurious,
			"counterexamples_confirmed": len(confirmed),
			"functions_encoded":      funcs,
			"stubs_hit":              stubs,
			"entries":                enames,
			"reach_labels":           reachAll,
			"init_instructions_skipped": skips,
			"load_ssa_seconds":       round2(ld.loadS),
			"explore_seconds":        round2(exploreS),
			"native_replay_seconds":  round2(replayS),
			"mutation":               strings.Join(muts, ";"),
		},
		Assumptions: []string{
			"linux/amd64: int/uint are 64 bit; float->int conversion of NaN/out-of-range yields 0x8000000000000000",
			"go/ssa (x/tools v0.29.0) is the semantics of the source; the gosmt interpreter and its reflect model are validated per path by native witness replay",
			"stubs listed in stubs_hit behave per DESIGN.md section 2.7",
			"bounds are those written in the harness files under /verif/harness (shape grammar sizes) plus the instruction and call-depth budget; values inside a shape are unrestricted unless the harness assumes otherwise",
			"cvc5 1.0.x / z3 answers are trusted; unknown answers are counted and never treated as success",
		}}
	if !*noEvidence && len(muts) == 0 && *entryRe == "" {
		os.MkdirAll(filepath.Join(verifDir, "evidence"), 0o755)
		b, _ := json.MarshalIndent(ev, "", " ")
		os.WriteFile(filepath.Join(verifDir, "evidence", *prop+".json"), b, 0o644)
	}
	fmt.Printf("gosmt: %s: %d paths (%d ok, %d panic, %d dead, %d unsupported, %d unwind, %d aborted), %d assertion queries (%d unsat, %d sat, %d unknown), %d witnesses replayed (%d mismatched), %d CEs confirmed, %d spurious, %d new violations; solver %.1fs in %d queries; wall %.1fs\n",
		*prop, nPaths, nOK, nPanic, nDead, nUnsup, nUnwind, nAbort, st.assertQ, st.assertUns, st.assertSat, st.unknown, matched+mismatched, mismatched, len(confirmed), spurious, violations, st.solverS, st.queries, wall)
	if st.truncated {
		fmt.Printf("  INCOMPLETE: path limit %d or time limit %s reached; the bound was not fully explored\n", *maxPaths, *maxTime)
	}
	if nUnsup > 0 || nAbort > 0 {
		fmt.Printf("  INCONCLUSIVE: %d paths ended in constructs the engine does not support, %d aborted; they are not counted as verified\n", nUnsup, nAbort)
	}
	if st.unknown > 0 {
		fmt.Printf("  INCONCLUSIVE: %d solver answers were unknown/timeouts\n", st.unknown)
	}
	if rp != nil {
		rp.cleanup()
	}
	if violations > 0 {
		os.Exit(1)
	}
	if len(broken) > 0 {
		for _, b := range broken {
			fmt.Printf("  BROKEN-CHECK: %s\n", b)
		}
		os.Exit(3)
	}
	if os.Getenv("VERIF_STRICT") != "" && (nUnsup > 0 || nAbort > 0 || st.truncated || st.unknown > 0) {
		os.Exit(4)
	}
}

func round2(f float64) float64 { return float64(int(f*100)) / 100 }

func envOr(k, d string) string {
	if v := os.Getenv(k); v != "" {
		return v
	}
	return d
}

func nativeEventsFiltered(evs []nativeEvent) []nativeEvent {
	var out []nativeEvent
	for _, e := range evs {
		if e.Kind == "cover" || e.Kind == "nativeassert" {
			continue
		}
		out = append(out, e)
	}
	return out
}

func compareWitness(r *PathResult, o *nativeOutcome) (bool, string) {
	try := func(o *nativeOutcome) (bool, string) {
		if o.Crash != "" {
			if r.Outcome == "PANIC" || r.Outcome == "UNWIND" || r.Outcome == "DEADLOCK" {
				return true, "" // the engine predicts that this run does not complete, and natively it does not
			}
			return false, "native process crashed: " + o.Crash
		}
		if len(o.Missing) > 0 {
			return false, fmt.Sprintf("native run asked for inputs the engine path never created: %v", o.Missing)
		}
		if o.Dead {
			return false, "native run failed a verifAssume"
		}
		for _, e := range o.Events {
			if e.Kind == "nativeassert" && e.Val != "true" {
				return false, "stub contract violated on the native side: " + e.ID
			}
		}
		var pred []nativeEvent
		for i, e := range r.Events {
			switch e.Kind {
			case "assert", "reach", "observe", "observe-str", "observe-bytes", "observe-strlen", "observe-sdec", "observe-udec":
				k := e.Kind
				if strings.HasPrefix(k, "observe") {
					k = "observe"
				}
				v, id := "", e.ID
				if i < len(r.EventVal) {
					v = r.EventVal[i]
				}
				if i < len(r.EventID) {
					id = r.EventID[i]
				}
				pred = append(pred, nativeEvent{k, id, v})
			}
		}
		nat := nativeEventsFiltered(o.Events)
		// compared as multisets: the relative order of observations carries no meaning (map entries are
		// flattened in key order natively and in insertion order symbolically)
		key := func(e nativeEvent) string { return e.Kind + "\x00" + e.ID + "\x00" + e.Val }
		ps, ns := append([]nativeEvent{}, pred...), append([]nativeEvent{}, nat...)
		sort.Slice(ps, func(i, j int) bool { return key(ps[i]) < key(ps[j]) })
		sort.Slice(ns, func(i, j int) bool { return key(ns[i]) < key(ns[j]) })
		// opaque strings: content of formatted strings is not modelled
		opaque := map[string]bool{}
		for _, e := range ps {
			if e.Val == "<opaque-string>" {
				opaque[e.Kind+"\x00"+e.ID] = true
			}
		}
		filter := func(evs []nativeEvent) []nativeEvent {
			var out []nativeEvent
			for _, e := range evs {
				if opaque[e.Kind+"\x00"+e.ID] {
					continue
				}
				out = append(out, e)
			}
			return out
		}
		ps, ns = filter(ps), filter(ns)
		n := len(ps)
		if len(ns) < n {
			n = len(ns)
		}
		for i := 0; i < n; i++ {
			if ps[i] != ns[i] {
				return false, fmt.Sprintf("engine predicts %v, native gives %v", ps[i], ns[i])
			}
		}
		if len(ps) != len(ns) {
			extra := ps
			if len(ns) > len(ps) {
				extra = ns
			}
			return false, fmt.Sprintf("event count: engine %d, native %d, first unmatched %v (outcome %s, native panic %q)", len(ps), len(ns), extra[n], r.Outcome, trunc(o.Panic, 200))
		}
		if r.Outcome == "PANIC" && o.Panic == "" {
			return false, "engine predicts a panic (" + r.Detail + "), native run does not panic"
		}
		if r.Outcome == "OK" && o.Panic != "" {
			return false, "native run panics: " + trunc(o.Panic, 300) + " " + trunc(o.Stack, 800)
		}
		return true, ""
	}
	ok, note := try(o)
	if ok {
		return true, ""
	}
	for i := range o.Runs {
		if ok2, _ := try(&o.Runs[i]); ok2 {
			return true, ""
		}
	}
	return false, note
}

func confirmCE(ce *CounterExample, o *nativeOutcome) (string, bool) {
	check := func(o *nativeOutcome) (string, bool) {
		switch ce.Kind {
		case "assert":
			for _, e := range o.Events {
				if e.Kind == "assert" && e.ID == ce.ID && e.Val == "false" {
					return "native run: assertion " + ce.ID + " is false", true
				}
			}
			if o.Crash != "" {
				return o.Crash, false
			}
			if o.Panic != "" {
				return "native run panicked before the assertion: " + o.Panic, false
			}
			return "native run: assertion holds", false
		case "panic":
			if o.Crash != "" {
				return "native process died: " + o.Crash, true
			}
			if o.Panic != "" {
				return "native panic: " + o.Panic, true
			}
			return "native run does not panic", false
		case "unwind":
			if o.Crash != "" {
				return "native process died: " + o.Crash, true
			}
			if o.Panic != "" && strings.Contains(o.Panic, "stack") {
				return "native panic: " + o.Panic, true
			}
			return "native run terminates", false
		}
		return "no native replay for kind " + ce.Kind, false
	}
	why, ok := check(o)
	if ok {
		return why, true
	}
	for i := range o.Runs {
		if w, ok := check(&o.Runs[i]); ok {
			return fmt.Sprintf("%s (run %d of %d)", w, i+2, len(o.Runs)+1), true
		}
	}
	return why, false
}

func runReplayCmd(args []string) {
	fs := flag.NewFlagSet("replay", flag.ExitOnError)
	file := fs.String("file", "", "replay file written by a check")
	fs.Parse(args)
	b, err := os.ReadFile(*file)
	if err != nil {
		fatalf("%v", err)
	}
	var ce CounterExample
	if err := json.Unmarshal(b, &ce); err != nil {
		fatalf("%v", err)
	}
	prop := ""
	if m := regexp.MustCompile(`^Verif(C\d+)_`).FindStringSubmatch(ce.Entry); m != nil {
		prop = m[1]
	}
	tps := propTargets(prop)
	var muts []string
	if ce.Mutation != "" {
		muts = strings.Split(ce.Mutation, ";")
	}
	ov := buildOverlay(tps, parseMutations(muts))
	rp := newReplayer(ov)
	defer rp.cleanup()
	rep := 1
	if ce.Orders {
		rep = 300
	}
	var tp targetPkg
	for _, t := range tps {
		files, _ := filepath.Glob(filepath.Join(verifDir, "harness", t.name, "*.go"))
		for _, f := range files {
			src, _ := os.ReadFile(f)
			if strings.Contains(string(src), "func "+ce.Entry+"(") {
				tp = t
			}
		}
	}
	if tp.name == "" {
		fatalf("entry %s not found in harness files", ce.Entry)
	}
	outs, err := rp.run(tp, []replayVector{{ID: "c0", Entry: ce.Entry, Inputs: ce.Inputs, Repeat: rep}})
	if err != nil {
		fatalf("%v", err)
	}
	o := outs["c0"]
	why, ok := confirmCE(&ce, o)
	fmt.Printf("replay of %s %s %s with inputs %v\n  engine: %s\n  native: %s\n", ce.Entry, ce.Kind, ce.ID, ce.Inputs, ce.Msg, why)
	if o != nil {
		for _, e := range o.Events {
			fmt.Printf("    native event: %s %s = %s\n", e.Kind, e.ID, trunc(e.Val, 200))
		}
		if o.Panic != "" || o.Dead || len(o.Missing) > 0 {
			fmt.Printf("    native panic=%q dead=%v missing=%v\n", o.Panic, o.Dead, o.Missing)
		}
	}
	if o != nil && o.Stack != "" {
		fmt.Println(trunc(o.Stack, 3000))
	}
	if ok {
		fmt.Println("REPRODUCED")
		os.Exit(1)
	}
	fmt.Println("not reproduced")
}

// confirmBySchedule replays a schedule counterexample natively: the source files of the preemption points get a
// pause inserted before the statement at which the goroutine was preempted (build overlay, /repo is untouched); the
// harness entry then runs under a watchdog. A run that does not finish (or ends in a fatal error) confirms it.
func confirmBySchedule(tp targetPkg, ov map[string][]byte, ce *CounterExample, vec replayVector) (string, bool, error) {
	if len(ce.Pauses) == 0 {
		return "", false, fmt.Errorf("no preemption recorded on the schedule (the blocking does not depend on one)")
	}
	ov2 := map[string][]byte{}
	for k, v := range ov {
		ov2[k] = v
	}
	byFile := map[string][]PausePoint{}
	pauseIdx := 0
	for _, pp := range ce.Pauses {
		switch pp.Kind {
		case "lock", "rlock", "encode", "decode", "send", "recv", "select", "wg.Wait", "verifYield":
			byFile[pp.File] = append(byFile[pp.File], pp)
		case "unlock", "runlock", "wg.Done":
			// preempted right AFTER the operation: the pause goes behind the call on that line (also inside a defer)
			byFile[pp.File] = append(byFile[pp.File], pp)
		default:
			return "", false, fmt.Errorf("preemption after %q at %s:%d cannot be expressed as a pause before a statement", pp.Kind, pp.File, pp.Line)
		}
	}
	for file, pps := range byFile {
		src, ok := ov2[file]
		if !ok {
			b, err := os.ReadFile(file)
			if err != nil {
				return "", false, err
			}
			src = b
		}
		lines := strings.Split(string(src), "\n")
		sort.Slice(pps, func(i, j int) bool { return pps[i].Line > pps[j].Line })
		last := -1
		_ = last
		pkgName := ""
		for _, l := range lines {
			if strings.HasPrefix(l, "package ") {
				pkgName = strings.Fields(l)[1]
				break
			}
		}
		for _, pp := range pps {
			if pp.Line < 1 || pp.Line > len(lines) {
				continue
			}
			last = pp.Line
			occ := pp.Occ
			if occ < 1 {
				occ = 1
			}
			if pp.Kind == "unlock" || pp.Kind == "runlock" || pp.Kind == "wg.Done" {
				method := map[string]string{"unlock": ".Unlock()", "runlock": ".RUnlock()", "wg.Done": ".Done()"}[pp.Kind]
				l := lines[pp.Line-1]
				trimmed := strings.TrimSpace(l)
				pause := fmt.Sprintf("verifPauseHere(%d, %d)", pauseIdx, occ)
				switch {
				case strings.HasPrefix(trimmed, "defer ") && strings.HasSuffix(trimmed, method):
					lines[pp.Line-1] = "defer func() { " + strings.TrimPrefix(trimmed, "defer ") + "; " + pause + " }() // verif: preemption point after the deferred call"
				case strings.HasSuffix(trimmed, method) && !strings.Contains(trimmed, "{"):
					lines[pp.Line-1] = l + "; " + pause + " // verif: preemption point after the call"
				default:
					return "", false, fmt.Errorf("preemption after %q at %s:%d: the line is not a plain or deferred call of %s", pp.Kind, pp.File, pp.Line, method)
				}
				pauseIdx++
				continue
			}
			lines = append(lines[:pp.Line-1], append([]string{fmt.Sprintf("verifPauseHere(%d, %d) // verif: preemption point", pauseIdx, occ)}, lines[pp.Line-1:]...)...)
			pauseIdx++
		}
		ov2[file] = []byte(strings.Join(lines, "\n"))
		// the pause helper lives in the same package: only the occ-th visit of the line sleeps
		helper := filepath.Join(filepath.Dir(file), "zz_verif_pausepoints.go")
		if _, done := ov2[helper]; !done {
			ov2[helper] = []byte("package " + pkgName + "\n\nimport (\n\t\"sync/atomic\"\n\t\"time\"\n)\n\nvar verifPauseCounters [64]int64\n\nfunc verifPauseHere(i int, occ int64) {\n\tif atomic.AddInt64(&verifPauseCounters[i], 1) == occ {\n\t\ttime.Sleep(1500 * time.Millisecond)\n\t}\n}\n")
		}
	}
	rp := newReplayer(ov2)
	defer rp.cleanup()
	if err := rp.build(tp); err != nil {
		return "", false, err
	}
	// "settled" in the harness means that paused goroutines have finished their pause too
	rp.extraEnv = []string{fmt.Sprintf("VERIF_SETTLE=%dms", 1500*pauseIdx+700)}
	vec.Repeat = 1
	outs, tail, err := rp.runBatch(tp, []replayVector{vec}, 20*time.Second)
	if err != nil {
		if strings.Contains(tail, "test timed out") || strings.Contains(tail, "all goroutines are asleep") {
			return "native run with pauses at the preemption points does not finish: " + lastLines(tail, 6), true, nil
		}
		if strings.Contains(tail, "fatal error") || strings.Contains(tail, "panic:") {
			return "native run with pauses dies: " + lastLines(tail, 6), true, nil
		}
		return "native run failed: " + lastLines(tail, 6), false, nil
	}
	if ce.Kind != "deadlock" && ce.Kind != "leak" {
		if len(outs) == 1 {
			why, ok := confirmCE(ce, &outs[0])
			return "with pauses at the preemption points: " + why, ok, nil
		}
		return "native run with pauses produced no outcome", false, nil
	}
	if len(outs) == 1 && outs[0].Panic != "" {
		return "native run with pauses panics: " + outs[0].Panic, true, nil
	}
	return "native run with pauses completes normally", false, nil
}
