// Solver driver: one persistent SMT-LIB2 solver process, incremental push/pop, DAG emission through define-fun.
package main

import (
	"bufio"
	"fmt"
	"io"
	"os"
	"os/exec"
	"strconv"
	"strings"
	"syscall"
	"time"
)

type Solver struct {
	kind    string // cvc5 | z3 | z3-new
	cmd     *exec.Cmd
	in      io.WriteCloser
	out     *bufio.Reader
	queries int
	dur     time.Duration
	log     io.Writer
	// names of terms already defined, with the scope depth they were defined at
	defined  map[int64]int
	sided    map[int64]int
	declared map[string]int
	depth    int
	dead     bool
	timeout  time.Duration
	nUnknown int
}

func newSolver(kind string, timeout time.Duration) *Solver {
	var cmd *exec.Cmd
	ms := int(timeout / time.Millisecond)
	switch kind {
	case "z3":
		cmd = exec.Command("z3", "-in", fmt.Sprintf("-t:%d", ms))
	case "z3-new":
		cmd = exec.Command("z3-new", "-in", fmt.Sprintf("-t:%d", ms))
	case "cvc5-long":
		// the primary back end again, with the full time limit (floating-point queries need it)
		cmd = exec.Command("cvc5", "--incremental", "--produce-models", fmt.Sprintf("--tlimit-per=%d", 3*ms))
	case "cvc5-int":
		// integer encoding of bit-vector arithmetic (keeps the mod-2^k semantics): decides multiply/divide-by-constant
		// kernels that stall the bit-blaster
		cmd = exec.Command("cvc5", "--incremental", "--produce-models", "--solve-bv-as-int=sum", fmt.Sprintf("--tlimit-per=%d", ms))
	default:
		kind = "cvc5"
		cmd = exec.Command("cvc5", "--incremental", "--produce-models", fmt.Sprintf("--tlimit-per=%d", ms))
	}
	in, _ := cmd.StdinPipe()
	out, _ := cmd.StdoutPipe()
	cmd.Stderr = os.Stderr
	cmd.SysProcAttr = &syscall.SysProcAttr{Pdeathsig: syscall.SIGKILL}
	if err := cmd.Start(); err != nil {
		panic(err)
	}
	s := &Solver{kind: kind, cmd: cmd, in: in, out: bufio.NewReaderSize(out, 1<<16), defined: map[int64]int{}, sided: map[int64]int{}, declared: map[string]int{}, timeout: timeout}
	if kind == "cvc5" || kind == "cvc5-int" || kind == "cvc5-long" {
		s.send("(set-logic ALL)")
	} else {
		s.send("(set-option :produce-models true)")
	}
	return s
}

func (s *Solver) close() {
	if s.cmd != nil {
		s.in.Close()
		done := make(chan struct{})
		go func() { s.cmd.Wait(); close(done) }()
		select {
		case <-done:
		case <-time.After(2 * time.Second):
			s.cmd.Process.Kill()
		}
		s.cmd = nil
	}
}

func (s *Solver) send(line string) {
	if s.log != nil {
		fmt.Fprintln(s.log, line)
	}
	if _, err := io.WriteString(s.in, line+"\n"); err != nil {
		s.dead = true
	}
}

type solverDied struct{ msg string }

var slowLog = os.Getenv("VERIF_SLOWLOG") != ""

func (s *Solver) ask(line string) string {
	t0 := time.Now()
	s.send(line)
	s.send(`(echo "<<done>>")`)
	var sb strings.Builder
	for {
		l, err := s.out.ReadString('\n')
		if err != nil {
			s.dead = true
			panic(solverDied{"solver died: " + sb.String() + " after: " + trunc(line, 300)})
		}
		if strings.Contains(l, "<<done>>") {
			break
		}
		sb.WriteString(l)
	}
	s.queries++
	d := time.Since(t0)
	s.dur += d
	if slowLog && d > 500*time.Millisecond {
		fmt.Fprintf(os.Stderr, "SLOW %s %.1fs depth=%d reply=%s query=%s\n", s.kind, d.Seconds(), s.depth, trunc(strings.TrimSpace(sb.String()), 30), trunc(line, 60))
	}
	return strings.TrimSpace(sb.String())
}

func trunc(s string, n int) string {
	if len(s) > n {
		return s[:n] + "..."
	}
	return s
}

func (s *Solver) push() {
	s.depth++
	s.send("(push 1)")
}
func (s *Solver) pop() {
	for id, d := range s.defined {
		if d >= s.depth {
			delete(s.defined, id)
		}
	}
	for n, d := range s.declared {
		if d >= s.depth {
			delete(s.declared, n)
		}
	}
	for id, d := range s.sided {
		if d >= s.depth {
			delete(s.sided, id)
		}
	}
	s.depth--
	s.send("(pop 1)")
}

// ref returns the text by which term t can be referred to in the current scope, emitting declarations and
// definitions for it and its sub-terms as needed.
func (s *Solver) ref(t *Term) string {
	if len(t.args) == 0 {
		if t.sym {
			if _, ok := s.declared[t.op]; !ok {
				s.declared[t.op] = s.depth
				s.send(fmt.Sprintf("(declare-const %s %s)", t.op, sortText(t.sort, t.w)))
			}
		}
		return t.op
	}
	if _, ok := s.defined[t.id]; ok {
		return "t" + strconv.FormatInt(t.id, 10)
	}
	var sb strings.Builder
	sb.WriteString("(" + t.op)
	for _, a := range t.args {
		sb.WriteString(" " + s.ref(a))
	}
	sb.WriteString(")")
	if t.size < 6 {
		return sb.String()
	}
	name := "t" + strconv.FormatInt(t.id, 10)
	s.send(fmt.Sprintf("(define-fun %s () %s %s)", name, sortText(t.sort, t.w), sb.String()))
	s.defined[t.id] = s.depth
	return name
}

func (s *Solver) assert(t *Term) {
	r := s.ref(t)
	s.emitSides(t)
	s.send("(assert " + r + ")")
}

// emitSides asserts the defining axioms of fresh symbols occurring in t (once per scope).
func (s *Solver) emitSides(t *Term) {
	for _, ax := range t.side {
		if _, ok := s.sided[ax.id]; ok {
			continue
		}
		s.sided[ax.id] = s.depth
		s.send("(assert " + s.ref(ax) + ")")
		s.emitSides(ax)
	}
}

// check returns "sat", "unsat" or "unknown" (anything else, including errors and timeouts, is "unknown").
func (s *Solver) check() string {
	r := s.ask("(check-sat)")
	if strings.Contains(r, "(error") {
		s.nUnknown++
		return "unknown"
	}
	switch r {
	case "sat", "unsat":
		return r
	}
	s.nUnknown++
	return "unknown"
}

// checkWith asks whether the current assertions plus extra are satisfiable, leaving the scope unchanged.
func (s *Solver) checkWith(extra *Term) string {
	s.push()
	s.assert(extra)
	r := s.check()
	s.pop()
	return r
}

// getValues evaluates terms in the current model (must directly follow a "sat" answer in the same scope).
func (s *Solver) getValues(ts []*Term) ([]uint64, bool) {
	if len(ts) == 0 {
		return nil, true
	}
	refs := make([]string, len(ts))
	for i, t := range ts {
		refs[i] = s.ref(t)
		s.emitSides(t)
	}
	// definitions may have been emitted after check-sat: re-check to make the model current (cheap, same scope)
	r := s.ask("(check-sat)")
	if r != "sat" {
		return nil, false
	}
	out := make([]uint64, len(ts))
	// ask in chunks to keep replies parseable
	for i := 0; i < len(ts); i += 40 {
		j := i + 40
		if j > len(ts) {
			j = len(ts)
		}
		reply := s.ask("(get-value (" + strings.Join(refs[i:j], " ") + "))")
		if strings.Contains(reply, "(error") {
			return nil, false
		}
		vals, ok := parseValues(reply, j-i)
		if !ok {
			return nil, false
		}
		for k, v := range vals {
			out[i+k] = canonValue(ts[i+k], v)
		}
	}
	return out, true
}

func canonValue(t *Term, v uint64) uint64 {
	if t.sort == SFP && t.w == 32 {
		return v & 0xffffffff
	}
	return v
}

// parseValues parses a get-value reply "((e1 v1) (e2 v2) ...)" and returns the raw bit patterns of v1..vn.
func parseValues(reply string, n int) ([]uint64, bool) {
	toks := tokenize(reply)
	pos := 0
	var parse func() interface{}
	parse = func() interface{} {
		if pos >= len(toks) {
			return nil
		}
		t := toks[pos]
		pos++
		if t == "(" {
			var l []interface{}
			for pos < len(toks) && toks[pos] != ")" {
				l = append(l, parse())
			}
			pos++
			return l
		}
		return t
	}
	root, ok := parse().([]interface{})
	if !ok || len(root) != n {
		return nil, false
	}
	out := make([]uint64, n)
	for i, e := range root {
		pair, ok := e.([]interface{})
		if !ok || len(pair) != 2 {
			return nil, false
		}
		v, ok := valueBits(pair[1])
		if !ok {
			return nil, false
		}
		out[i] = v
	}
	return out, true
}

func tokenize(s string) []string {
	var toks []string
	i := 0
	for i < len(s) {
		c := s[i]
		switch {
		case c == '(' || c == ')':
			toks = append(toks, string(c))
			i++
		case c == ' ' || c == '\n' || c == '\t' || c == '\r':
			i++
		case c == '|':
			j := strings.IndexByte(s[i+1:], '|')
			if j < 0 {
				j = len(s) - i - 2
			}
			toks = append(toks, s[i:i+j+2])
			i += j + 2
		default:
			j := i
			for j < len(s) && !strings.ContainsRune("() \n\t\r", rune(s[j])) {
				j++
			}
			toks = append(toks, s[i:j])
			i = j
		}
	}
	return toks
}

func atomBits(a string) (uint64, int, bool) {
	switch {
	case a == "true":
		return 1, 1, true
	case a == "false":
		return 0, 1, true
	case strings.HasPrefix(a, "#b"):
		v, err := strconv.ParseUint(a[2:], 2, 64)
		return v, len(a) - 2, err == nil
	case strings.HasPrefix(a, "#x"):
		v, err := strconv.ParseUint(a[2:], 16, 64)
		return v, 4 * (len(a) - 2), err == nil
	}
	return 0, 0, false
}

func valueBits(v interface{}) (uint64, bool) {
	switch v := v.(type) {
	case string:
		b, _, ok := atomBits(v)
		return b, ok
	case []interface{}:
		if len(v) == 0 {
			return 0, false
		}
		head, _ := v[0].(string)
		switch head {
		case "fp":
			if len(v) != 4 {
				return 0, false
			}
			sg, _, ok1 := atomBits(v[1].(string))
			ex, ew, ok2 := atomBits(v[2].(string))
			mn, mw, ok3 := atomBits(v[3].(string))
			if !ok1 || !ok2 || !ok3 {
				return 0, false
			}
			return sg<<uint(ew+mw) | ex<<uint(mw) | mn, true
		case "_":
			// (_ bvN w) | (_ +zero e s) | (_ -zero e s) | (_ +oo e s) | (_ -oo e s) | (_ NaN e s)
			if len(v) < 3 {
				return 0, false
			}
			name, _ := v[1].(string)
			if strings.HasPrefix(name, "bv") {
				x, err := strconv.ParseUint(name[2:], 10, 64)
				return x, err == nil
			}
			eb, _ := strconv.Atoi(v[2].(string))
			sb, _ := strconv.Atoi(v[3].(string))
			expAll := (uint64(1)<<uint(eb) - 1) << uint(sb-1)
			sign := uint64(1) << uint(eb+sb-1)
			switch name {
			case "+zero":
				return 0, true
			case "-zero":
				return sign, true
			case "+oo":
				return expAll, true
			case "-oo":
				return sign | expAll, true
			case "NaN":
				return expAll | uint64(1)<<uint(sb-2), true
			}
		}
	}
	return 0, false
}
