// Model of package reflect (DESIGN §2.6): implemented from the package documentation including its panics.
package main

import (
	"fmt"
	"go/token"
	"go/types"
	"reflect"
	"strings"
)

type RVal struct {
	typ  types.Type // nil => the zero Value
	v    Value
	cell *Cell // addressable location
	ro   bool  // obtained through an unexported field
}

type RType struct{ t types.Type }

func (r RVal) get() Value {
	if r.cell != nil {
		return load(r.cell)
	}
	return r.v
}

func kindOf(t types.Type) reflect.Kind {
	switch u := t.Underlying().(type) {
	case *types.Basic:
		switch u.Kind() {
		case types.Bool, types.UntypedBool:
			return reflect.Bool
		case types.Int, types.UntypedInt:
			return reflect.Int
		case types.Int8:
			return reflect.Int8
		case types.Int16:
			return reflect.Int16
		case types.Int32, types.UntypedRune:
			return reflect.Int32
		case types.Int64:
			return reflect.Int64
		case types.Uint:
			return reflect.Uint
		case types.Uint8:
			return reflect.Uint8
		case types.Uint16:
			return reflect.Uint16
		case types.Uint32:
			return reflect.Uint32
		case types.Uint64:
			return reflect.Uint64
		case types.Uintptr:
			return reflect.Uintptr
		case types.Float32:
			return reflect.Float32
		case types.Float64, types.UntypedFloat:
			return reflect.Float64
		case types.Complex64:
			return reflect.Complex64
		case types.Complex128:
			return reflect.Complex128
		case types.String, types.UntypedString:
			return reflect.String
		case types.UnsafePointer:
			return reflect.UnsafePointer
		}
	case *types.Array:
		return reflect.Array
	case *types.Chan:
		return reflect.Chan
	case *types.Signature:
		return reflect.Func
	case *types.Interface:
		return reflect.Interface
	case *types.Map:
		return reflect.Map
	case *types.Pointer:
		return reflect.Pointer
	case *types.Slice:
		return reflect.Slice
	case *types.Struct:
		return reflect.Struct
	}
	panic(unsupported{"kindOf " + t.String()})
}

func (ex *Exec) rtypeIface(t types.Type) IfaceV {
	if t == nil {
		return IfaceV{}
	}
	return IfaceV{typ: ex.rtypeMarker(), v: RType{t}}
}

func (ex *Exec) rtypeMarker() types.Type {
	if ex.rtypeT == nil {
		ex.rtypeT = types.NewPointer(ex.lookupType("reflect", "rtype"))
	}
	return ex.rtypeT
}

func (ex *Exec) isReflectTypeIface(it *types.Interface) bool {
	for i := 0; i < it.NumMethods(); i++ {
		switch it.Method(i).Name() {
		case "Kind", "Elem", "Name", "String", "NumIn", "In", "NumOut", "Out", "FieldByName", "NumField", "Field", "Key", "Len":
			return true
		}
	}
	return false
}

func (ex *Exec) rvalType() types.Type {
	if ex.rvalT == nil {
		ex.rvalT = ex.lookupType("reflect", "Value")
	}
	return ex.rvalT
}

func (ex *Exec) rvalSlice(rs []RVal) Value {
	arr := make([]*Cell, len(rs))
	for i, r := range rs {
		arr[i] = &Cell{typ: ex.rvalType(), val: r}
	}
	return SliceV{arr: arr, n: len(arr), cp: len(arr), nonNil: true}
}

func (ex *Exec) valueError(fr *Frame, pos token.Pos, method string, k reflect.Kind) {
	msg := "reflect: call of " + method + " on " + k.String() + " Value"
	if k == reflect.Invalid {
		msg = "reflect: call of " + method + " on zero Value"
	}
	fn := ""
	if fr != nil {
		fn = fr.fn.String()
	}
	// *reflect.ValueError implements error
	panic(&targetPanic{v: ex.makeErrorValue(msg), msg: msg, pos: ex.posOf(fr, pos), fn: fn})
}

func (r RVal) kind() reflect.Kind {
	if r.typ == nil {
		return reflect.Invalid
	}
	return kindOf(r.typ)
}

// ifaceOf packs a reflect.Value into an interface value (the result of Value.Interface()).
func (ex *Exec) ifaceOf(r RVal) IfaceV {
	if isInterface(r.typ) {
		v := r.get()
		if iv, ok := v.(IfaceV); ok {
			return iv
		}
		return IfaceV{}
	}
	return IfaceV{typ: r.typ, v: r.get()}
}

// assignTo prepares value r for storing into a location of type dst (reflect's assignTo): wraps into interfaces.
func (ex *Exec) assignTo(fr *Frame, pos token.Pos, ctx string, r RVal, dst types.Type) Value {
	if r.typ == nil {
		ex.valueError(fr, pos, ctx, reflect.Invalid)
	}
	if isInterface(dst) {
		if isInterface(r.typ) {
			iv := ex.ifaceOf(r)
			if iv.typ != nil && !types.Implements(iv.typ, dst.Underlying().(*types.Interface)) {
				ex.strPanic(fr, pos, ctx+": value of type "+typeStr(r.typ)+" is not assignable to type "+typeStr(dst))
			}
			return iv
		}
		if !types.AssignableTo(r.typ, dst) {
			ex.strPanic(fr, pos, ctx+": value of type "+typeStr(r.typ)+" is not assignable to type "+typeStr(dst))
		}
		return IfaceV{typ: r.typ, v: r.get()}
	}
	if !types.AssignableTo(r.typ, dst) {
		ex.strPanic(fr, pos, ctx+": value of type "+typeStr(r.typ)+" is not assignable to type "+typeStr(dst))
	}
	return r.get()
}

func (ex *Exec) reflectCall(full string, args []Value, fr *Frame, pos token.Pos) Value {
	switch full {
	case "reflect.ValueOf":
		i := args[0].(IfaceV)
		if i.typ == nil {
			return RVal{}
		}
		if _, ok := i.v.(RType); ok {
			panic(unsupported{"reflect.ValueOf(reflect.Type)"})
		}
		return RVal{typ: i.typ, v: i.v}
	case "reflect.TypeOf":
		i := args[0].(IfaceV)
		if i.typ == nil {
			return IfaceV{}
		}
		if _, ok := i.v.(RType); ok {
			return ex.rtypeIface(ex.rtypeMarker())
		}
		return ex.rtypeIface(i.typ)
	case "reflect.Indirect":
		r := args[0].(RVal)
		if r.kind() != reflect.Pointer {
			return r
		}
		return ex.rvElem(r, fr, pos)
	case "reflect.New":
		t := ex.rtypeArg(args[0], fr, pos, "reflect.New")
		c := ex.newCell(t)
		return RVal{typ: types.NewPointer(t), v: Ptr{c}}
	case "reflect.Zero":
		t := ex.rtypeArg(args[0], fr, pos, "reflect.Zero")
		return RVal{typ: t, v: ex.zero(t)}
	case "reflect.SliceOf":
		return ex.rtypeIface(types.NewSlice(ex.rtypeArg(args[0], fr, pos, "reflect.SliceOf")))
	case "reflect.MapOf":
		k, v := ex.rtypeArg(args[0], fr, pos, "reflect.MapOf"), ex.rtypeArg(args[1], fr, pos, "reflect.MapOf")
		if !types.Comparable(k) {
			ex.strPanic(fr, pos, "reflect.MapOf: invalid key type "+typeStr(k))
		}
		return ex.rtypeIface(types.NewMap(k, v))
	case "reflect.PointerTo", "reflect.PtrTo":
		return ex.rtypeIface(types.NewPointer(ex.rtypeArg(args[0], fr, pos, "reflect.PointerTo")))
	case "reflect.MakeSlice":
		t := ex.rtypeArg(args[0], fr, pos, "reflect.MakeSlice")
		st, ok := t.Underlying().(*types.Slice)
		if !ok {
			ex.strPanic(fr, pos, "reflect.MakeSlice of non-slice type")
		}
		n, c := ex.concInt(args[1], "MakeSlice len"), ex.concInt(args[2], "MakeSlice cap")
		if n < 0 || c < n {
			ex.strPanic(fr, pos, "reflect.MakeSlice: negative len or len > cap")
		}
		arr := make([]*Cell, c)
		for i := range arr {
			arr[i] = ex.newCell(st.Elem())
		}
		return RVal{typ: t, v: SliceV{arr: arr, n: n, cp: c, nonNil: true}}
	case "reflect.MakeMapWithSize", "reflect.MakeMap":
		t := ex.rtypeArg(args[0], fr, pos, "reflect.MakeMap")
		mt, ok := t.Underlying().(*types.Map)
		if !ok {
			ex.strPanic(fr, pos, "reflect.MakeMapWithSize of non-map type")
		}
		ex.mapCounter++
		return RVal{typ: t, v: &MapObj{typ: mt, id: ex.mapCounter}}
	case "reflect.DeepEqual":
		a, b := args[0].(IfaceV), args[1].(IfaceV)
		return ex.reflectDeepEqual(a, b, 0)
	case "(reflect.Kind).String":
		k := args[0].(*Term)
		if !k.conc {
			panic(unsupported{"Kind.String symbolic"})
		}
		return StrV{s: reflect.Kind(k.cv).String()}
	case "(reflect.StructTag).Get":
		return StrV{s: reflect.StructTag(ex.concStr(args[0].(StrV), "StructTag")).Get(ex.concStr(args[1].(StrV), "StructTag key"))}
	case "(reflect.StructTag).Lookup":
		s, ok := reflect.StructTag(ex.concStr(args[0].(StrV), "StructTag")).Lookup(ex.concStr(args[1].(StrV), "StructTag key"))
		return TupleV{StrV{s: s}, boolConst(ok)}
	}
	if strings.HasPrefix(full, "(reflect.Value).") {
		return ex.reflectValueMethod(strings.TrimPrefix(full, "(reflect.Value)."), args[0].(RVal), args[1:], fr, pos)
	}
	if strings.HasPrefix(full, "(*reflect.rtype).") {
		return ex.reflectTypeMethod(args[0].(RType), strings.TrimPrefix(full, "(*reflect.rtype)."), args[1:])
	}
	if strings.HasPrefix(full, "(*reflect.ValueError).") {
		return nil
	}
	panic(unsupported{"reflect op " + full})
}

func (ex *Exec) rtypeArg(v Value, fr *Frame, pos token.Pos, ctx string) types.Type {
	i := v.(IfaceV)
	if i.typ == nil {
		ex.rtPanic(fr, pos, "invalid memory address or nil pointer dereference")
	}
	return i.v.(RType).t
}

func (ex *Exec) rvElem(r RVal, fr *Frame, pos token.Pos) RVal {
	switch r.kind() {
	case reflect.Pointer:
		p := r.get().(Ptr)
		if p.c == nil {
			return RVal{}
		}
		return RVal{typ: r.typ.Underlying().(*types.Pointer).Elem(), cell: p.c, ro: r.ro}
	case reflect.Interface:
		iv, _ := r.get().(IfaceV)
		if iv.typ == nil {
			return RVal{}
		}
		return RVal{typ: iv.typ, v: iv.v, ro: r.ro}
	}
	ex.valueError(fr, pos, "reflect.Value.Elem", r.kind())
	return RVal{}
}

func (ex *Exec) reflectValueMethod(m string, r RVal, args []Value, fr *Frame, pos token.Pos) Value {
	k := r.kind()
	switch m {
	case "Kind":
		return bvConst(64, uint64(k))
	case "IsValid":
		return boolConst(r.typ != nil)
	case "Type":
		if r.typ == nil {
			ex.valueError(fr, pos, "reflect.Value.Type", reflect.Invalid)
		}
		return ex.rtypeIface(r.typ)
	case "CanInterface":
		if r.typ == nil {
			ex.valueError(fr, pos, "reflect.Value.CanInterface", reflect.Invalid)
		}
		return boolConst(!r.ro)
	case "CanSet":
		return boolConst(r.cell != nil && !r.ro)
	case "CanAddr":
		return boolConst(r.cell != nil)
	case "Addr":
		if r.cell == nil {
			ex.strPanic(fr, pos, "reflect.Value.Addr of unaddressable value")
		}
		return RVal{typ: types.NewPointer(r.typ), v: Ptr{r.cell}, ro: r.ro}
	case "Interface":
		if r.typ == nil {
			ex.valueError(fr, pos, "reflect.Value.Interface", reflect.Invalid)
		}
		if r.ro {
			ex.strPanic(fr, pos, "reflect.Value.Interface: cannot return value obtained from unexported field or method")
		}
		return ex.ifaceOf(r)
	case "Elem":
		return ex.rvElem(r, fr, pos)
	case "IsNil":
		switch k {
		case reflect.Pointer:
			return boolConst(r.get().(Ptr).c == nil)
		case reflect.Map:
			return boolConst(r.get().(*MapObj) == nil)
		case reflect.Slice:
			return boolConst(r.get().(SliceV).isNil())
		case reflect.Func:
			return boolConst(r.get().(*FuncV) == nil)
		case reflect.Chan:
			return boolConst(r.get().(*ChanObj) == nil)
		case reflect.Interface:
			iv, _ := r.get().(IfaceV)
			return boolConst(iv.typ == nil)
		case reflect.UnsafePointer:
			return boolConst(r.get().(Ptr).c == nil)
		}
		ex.valueError(fr, pos, "reflect.Value.IsNil", k)
	case "IsZero":
		if r.typ == nil {
			ex.valueError(fr, pos, "reflect.Value.IsZero", k)
		}
		return ex.deepEqual(r.get(), ex.zero(r.typ), 0)
	case "Len":
		switch k {
		case reflect.Slice:
			return bvConst(64, uint64(r.get().(SliceV).n))
		case reflect.Map:
			m := r.get().(*MapObj)
			if m == nil {
				return bvConst(64, 0)
			}
			return bvConst(64, uint64(len(m.entries)))
		case reflect.String:
			return ex.strLen(r.get().(StrV))
		case reflect.Array:
			return bvConst(64, uint64(r.typ.Underlying().(*types.Array).Len()))
		case reflect.Chan:
			return bvConst(64, 0)
		case reflect.Pointer:
			if at, ok := r.typ.Underlying().(*types.Pointer).Elem().Underlying().(*types.Array); ok {
				return bvConst(64, uint64(at.Len()))
			}
		}
		ex.valueError(fr, pos, "reflect.Value.Len", k)
	case "Index":
		i := ex.concInt(args[0], "reflect Index")
		switch k {
		case reflect.Slice:
			s := r.get().(SliceV)
			if i < 0 || i >= s.n {
				ex.strPanic(fr, pos, "reflect: slice index out of range")
			}
			c := s.arr[s.off+i]
			return RVal{typ: r.typ.Underlying().(*types.Slice).Elem(), cell: c, ro: r.ro}
		case reflect.Array:
			at := r.typ.Underlying().(*types.Array)
			if i < 0 || int64(i) >= at.Len() {
				ex.strPanic(fr, pos, "reflect: array index out of range")
			}
			if r.cell != nil {
				return RVal{typ: at.Elem(), cell: r.cell.elems[i], ro: r.ro}
			}
			return RVal{typ: at.Elem(), v: r.v.(StructV)[i], ro: r.ro}
		case reflect.String:
			s := r.get().(StrV)
			return RVal{typ: types.Typ[types.Uint8], v: ex.strIndex(fr, s, bvConst(64, uint64(i)), pos)}
		}
		ex.valueError(fr, pos, "reflect.Value.Index", k)
	case "MapKeys":
		if k != reflect.Map {
			ex.valueError(fr, pos, "reflect.Value.MapKeys", k)
		}
		m := r.get().(*MapObj)
		kt := r.typ.Underlying().(*types.Map).Key()
		var rs []RVal
		if m != nil {
			ents := append([]MapEntry{}, m.entries...)
			if ex.allMapOrders {
				for len(ents) > 1 {
					p := ex.choose(len(ents), "mapkeys")
					rs = append(rs, RVal{typ: kt, v: ents[p].key, ro: r.ro})
					ents = append(ents[:p:p], ents[p+1:]...)
				}
			}
			for _, e := range ents {
				rs = append(rs, RVal{typ: kt, v: e.key, ro: r.ro})
			}
		}
		return ex.rvalSlice(rs)
	case "MapIndex":
		if k != reflect.Map {
			ex.valueError(fr, pos, "reflect.Value.MapIndex", k)
		}
		mt := r.typ.Underlying().(*types.Map)
		key := ex.assignTo(fr, pos, "reflect.Value.MapIndex", args[0].(RVal), mt.Key())
		ex.checkHashable(fr, key, pos)
		v, ok := ex.mapGet(fr, r.get().(*MapObj), key)
		if !ok {
			return RVal{}
		}
		return RVal{typ: mt.Elem(), v: v, ro: r.ro}
	case "SetMapIndex":
		if k != reflect.Map {
			ex.valueError(fr, pos, "reflect.Value.SetMapIndex", k)
		}
		if r.ro {
			ex.strPanic(fr, pos, "reflect: reflect.Value.SetMapIndex using value obtained using unexported field")
		}
		mt := r.typ.Underlying().(*types.Map)
		key := ex.assignTo(fr, pos, "reflect.Value.SetMapIndex", args[0].(RVal), mt.Key())
		ex.checkHashable(fr, key, pos)
		m := r.get().(*MapObj)
		ev := args[1].(RVal)
		if ev.typ == nil {
			if m != nil {
				ex.mapDelete(fr, m, key)
			}
			return nil
		}
		val := ex.assignTo(fr, pos, "reflect.Value.SetMapIndex", ev, mt.Elem())
		if m == nil {
			ex.rtPanic(fr, pos, "assignment to entry in nil map")
		}
		ex.mapUpdate(fr, m, key, val)
		return nil
	case "Set":
		if r.typ == nil {
			ex.valueError(fr, pos, "reflect.Value.Set", reflect.Invalid)
		}
		if r.ro {
			ex.strPanic(fr, pos, "reflect: reflect.Value.Set using value obtained using unexported field")
		}
		if r.cell == nil {
			ex.strPanic(fr, pos, "reflect: reflect.Value.Set using unaddressable value")
		}
		x := args[0].(RVal)
		if x.ro {
			ex.strPanic(fr, pos, "reflect: reflect.Value.Set using value obtained using unexported field")
		}
		v := ex.assignTo(fr, pos, "reflect.Set", x, r.typ)
		ex.store(r.cell, v)
		return nil
	case "SetInt", "SetUint", "SetFloat", "SetBool", "SetString":
		if r.cell == nil || r.ro {
			ex.strPanic(fr, pos, "reflect: reflect.Value."+m+" using unaddressable value")
		}
		ex.store(r.cell, ex.convert(fr, setterType(m), r.typ, args[0], pos))
		return nil
	case "CanConvert":
		if r.typ == nil {
			ex.valueError(fr, pos, "reflect.Value.Type", reflect.Invalid)
		}
		t := ex.rtypeArg(args[0], fr, pos, "CanConvert")
		return boolConst(ex.convertible(r, t))
	case "Convert":
		if r.typ == nil {
			ex.valueError(fr, pos, "reflect.Value.Type", reflect.Invalid)
		}
		t := ex.rtypeArg(args[0], fr, pos, "Convert")
		if r.ro {
			// reflect: Convert on unexported-field values is allowed only via CanInterface paths; it panics.
			ex.strPanic(fr, pos, "reflect: reflect.Value.Convert using value obtained using unexported field")
		}
		if !ex.convertible(r, t) {
			ex.strPanic(fr, pos, "reflect.Value.Convert: value of type "+typeStr(r.typ)+" cannot be converted to type "+typeStr(t))
		}
		if isInterface(t) {
			return RVal{typ: t, v: ex.ifaceOf(r)}
		}
		return RVal{typ: t, v: ex.convert(fr, r.typ, t, r.get(), pos)}
	case "Int":
		switch k {
		case reflect.Int, reflect.Int8, reflect.Int16, reflect.Int32, reflect.Int64:
			return bvResize(r.get().(*Term), 64, true)
		}
		ex.valueError(fr, pos, "reflect.Value.Int", k)
	case "Uint":
		switch k {
		case reflect.Uint, reflect.Uint8, reflect.Uint16, reflect.Uint32, reflect.Uint64, reflect.Uintptr:
			return bvResize(r.get().(*Term), 64, false)
		}
		ex.valueError(fr, pos, "reflect.Value.Uint", k)
	case "Float":
		switch k {
		case reflect.Float32, reflect.Float64:
			return fpToFP(r.get().(*Term), 64)
		}
		ex.valueError(fr, pos, "reflect.Value.Float", k)
	case "Bool":
		if k != reflect.Bool {
			ex.valueError(fr, pos, "reflect.Value.Bool", k)
		}
		return r.get()
	case "String":
		if k == reflect.String {
			return r.get()
		}
		if k == reflect.Invalid {
			return StrV{s: "<invalid Value>"}
		}
		return StrV{s: "<" + typeStr(r.typ) + " Value>"}
	case "NumField":
		st, ok := r.typ.Underlying().(*types.Struct)
		if !ok || r.typ == nil {
			ex.valueError(fr, pos, "reflect.Value.NumField", k)
		}
		return bvConst(64, uint64(st.NumFields()))
	case "Field":
		if k != reflect.Struct {
			ex.valueError(fr, pos, "reflect.Value.Field", k)
		}
		return ex.rvField(r, ex.concInt(args[0], "Field index"), fr, pos)
	case "FieldByIndex":
		sl := args[0].(SliceV)
		cur := r
		for i := 0; i < sl.n; i++ {
			idx := ex.concInt(load(sl.arr[sl.off+i]), "FieldByIndex")
			if i > 0 && cur.kind() == reflect.Pointer {
				if cur.get().(Ptr).c == nil {
					ex.strPanic(fr, pos, "reflect: indirection through nil pointer to embedded struct")
				}
				cur = ex.rvElem(cur, fr, pos)
			}
			if cur.kind() != reflect.Struct {
				ex.valueError(fr, pos, "reflect.Value.Field", cur.kind())
			}
			cur = ex.rvField(cur, idx, fr, pos)
		}
		return cur
	case "FieldByName":
		if k != reflect.Struct {
			ex.valueError(fr, pos, "reflect.Value.FieldByName", k)
		}
		name := ex.concStr(args[0].(StrV), "FieldByName")
		path, ok := fieldPathByName(r.typ, func(s string) bool { return s == name })
		if !ok {
			return RVal{}
		}
		cur := r
		for i, idx := range path {
			if i > 0 && cur.kind() == reflect.Pointer {
				if cur.get().(Ptr).c == nil {
					// reflect.Value.FieldByName uses FieldByIndex which panics here
					ex.strPanic(fr, pos, "reflect: indirection through nil pointer to embedded struct")
				}
				cur = ex.rvElem(cur, fr, pos)
			}
			cur = ex.rvField(cur, idx, fr, pos)
		}
		return cur
	case "MethodByName":
		if r.typ == nil {
			ex.valueError(fr, pos, "reflect.Value.MethodByName", k)
		}
		name := ex.concStr(args[0].(StrV), "MethodByName")
		if !token.IsExported(name) {
			return RVal{}
		}
		fn := ex.lookupMethod(r.typ, name)
		if fn == nil || !inMethodSet(r.typ, name) {
			return RVal{}
		}
		recv := r.get()
		sig := fn.Signature
		params := make([]*types.Var, 0, sig.Params().Len())
		for i := 0; i < sig.Params().Len(); i++ {
			params = append(params, sig.Params().At(i))
		}
		bsig := types.NewSignatureType(nil, nil, nil, types.NewTuple(params...), sig.Results(), sig.Variadic())
		bound := &FuncV{name: "bound:" + name, nat: func(ex *Exec, a []Value) Value {
			return ex.callFunction(fn, append([]Value{recv}, a...), nil, fr, pos)
		}}
		return RVal{typ: bsig, v: bound}
	case "Call":
		if k != reflect.Func {
			ex.valueError(fr, pos, "reflect.Value.Call", k)
		}
		return ex.rvCall(r, args[0].(SliceV), fr, pos)
	case "Pointer", "UnsafePointer":
		panic(unsupported{"reflect.Value." + m})
	}
	panic(unsupported{"reflect.Value." + m})
}

func setterType(m string) types.Type {
	switch m {
	case "SetInt":
		return types.Typ[types.Int64]
	case "SetUint":
		return types.Typ[types.Uint64]
	case "SetFloat":
		return types.Typ[types.Float64]
	case "SetBool":
		return types.Typ[types.Bool]
	}
	return types.Typ[types.String]
}

func inMethodSet(t types.Type, name string) bool {
	ms := types.NewMethodSet(t)
	for i := 0; i < ms.Len(); i++ {
		if ms.At(i).Obj().Name() == name {
			return true
		}
	}
	return false
}

func (ex *Exec) convertible(r RVal, t types.Type) bool {
	if !types.ConvertibleTo(r.typ, t) {
		return false
	}
	// reflect refuses a few conversions the language allows only for constants; none apply to variables.
	return true
}

func (ex *Exec) rvField(r RVal, i int, fr *Frame, pos token.Pos) RVal {
	st := r.typ.Underlying().(*types.Struct)
	if i < 0 || i >= st.NumFields() {
		ex.strPanic(fr, pos, "reflect: Field index out of range")
	}
	f := st.Field(i)
	ro := r.ro || (!f.Exported())
	if f.Embedded() && !f.Exported() {
		// embedded unexported struct fields: exported promoted fields remain settable only if embedded type is exported
		ro = r.ro || !f.Exported()
	}
	if isOpaqueType(r.typ) {
		panic(unsupported{"reflect field of opaque " + typeStr(r.typ)})
	}
	if r.cell != nil {
		return RVal{typ: f.Type(), cell: r.cell.elems[i], ro: ro}
	}
	return RVal{typ: f.Type(), v: r.v.(StructV)[i], ro: ro}
}

// fieldPathByName implements reflect's FieldByNameFunc: breadth-first over embedded structs; the match must be
// unique at the shallowest depth where one exists.
func fieldPathByName(t types.Type, match func(string) bool) ([]int, bool) {
	type ent struct {
		t    types.Type
		path []int
	}
	if p, ok := t.Underlying().(*types.Pointer); ok {
		t = p.Elem()
	}
	cur := []ent{{t, nil}}
	visited := map[string]bool{}
	for len(cur) > 0 {
		var next []ent
		var found []int
		count := 0
		for _, e := range cur {
			st, ok := e.t.Underlying().(*types.Struct)
			if !ok {
				continue
			}
			key := types.TypeString(e.t, nil)
			if visited[key] {
				continue
			}
			visited[key] = true
			for i := 0; i < st.NumFields(); i++ {
				f := st.Field(i)
				name := f.Name()
				if match(name) {
					count++
					if count == 1 {
						found = append(append([]int{}, e.path...), i)
					}
					continue
				}
				if f.Embedded() {
					ft := f.Type()
					if p, ok := ft.Underlying().(*types.Pointer); ok {
						ft = p.Elem()
					}
					if _, ok := ft.Underlying().(*types.Struct); ok {
						next = append(next, ent{ft, append(append([]int{}, e.path...), i)})
					}
				}
			}
		}
		if count == 1 {
			return found, true
		}
		if count > 1 {
			return nil, false
		}
		cur = next
	}
	return nil, false
}

func (ex *Exec) structFieldValue(t types.Type, path []int) Value {
	sft := ex.lookupType("reflect", "StructField")
	st := sft.Underlying().(*types.Struct)
	// walk
	cur := t
	var f *types.Var
	var tag string
	for _, i := range path {
		if p, ok := cur.Underlying().(*types.Pointer); ok {
			cur = p.Elem()
		}
		s := cur.Underlying().(*types.Struct)
		f = s.Field(i)
		tag = s.Tag(i)
		cur = f.Type()
	}
	sv := make(StructV, st.NumFields())
	for i := 0; i < st.NumFields(); i++ {
		switch st.Field(i).Name() {
		case "Name":
			sv[i] = StrV{s: f.Name()}
		case "PkgPath":
			if f.Exported() || f.Pkg() == nil {
				sv[i] = StrV{}
			} else {
				sv[i] = StrV{s: f.Pkg().Path()}
			}
		case "Type":
			sv[i] = ex.rtypeIface(f.Type())
		case "Tag":
			sv[i] = StrV{s: tag}
		case "Offset":
			sv[i] = bvConst(64, 0)
		case "Index":
			arr := make([]*Cell, len(path))
			for j, p := range path {
				arr[j] = ex.newCellVal(types.Typ[types.Int], bvConst(64, uint64(p)))
			}
			sv[i] = SliceV{arr: arr, n: len(arr), cp: len(arr), nonNil: true}
		case "Anonymous":
			sv[i] = boolConst(f.Embedded())
		default:
			sv[i] = ex.zero(st.Field(i).Type())
		}
	}
	return sv
}

func (ex *Exec) reflectTypeMethod(rt RType, m string, args []Value) Value {
	t := rt.t
	switch m {
	case "Kind":
		return bvConst(64, uint64(kindOf(t)))
	case "String":
		return StrV{s: typeStr(t)}
	case "Name":
		if n, ok := t.(*types.Named); ok {
			s := n.Obj().Name()
			if ta := n.TypeArgs(); ta != nil && ta.Len() > 0 {
				parts := make([]string, ta.Len())
				for i := range parts {
					parts[i] = types.TypeString(ta.At(i), nil)
				}
				s += "[" + strings.Join(parts, ",") + "]"
			}
			return StrV{s: s}
		}
		if b, ok := t.(*types.Basic); ok {
			return StrV{s: b.Name()}
		}
		return StrV{}
	case "PkgPath":
		if n, ok := t.(*types.Named); ok && n.Obj().Pkg() != nil {
			return StrV{s: n.Obj().Pkg().Path()}
		}
		return StrV{}
	case "Elem":
		switch u := t.Underlying().(type) {
		case *types.Pointer:
			return ex.rtypeIface(u.Elem())
		case *types.Slice:
			return ex.rtypeIface(u.Elem())
		case *types.Array:
			return ex.rtypeIface(u.Elem())
		case *types.Map:
			return ex.rtypeIface(u.Elem())
		case *types.Chan:
			return ex.rtypeIface(u.Elem())
		}
		ex.strPanic(nil, token.NoPos, "reflect: Elem of invalid type "+typeStr(t))
	case "Key":
		if u, ok := t.Underlying().(*types.Map); ok {
			return ex.rtypeIface(u.Key())
		}
		ex.strPanic(nil, token.NoPos, "reflect: Key of non-map type "+typeStr(t))
	case "Len":
		if u, ok := t.Underlying().(*types.Array); ok {
			return bvConst(64, uint64(u.Len()))
		}
		ex.strPanic(nil, token.NoPos, "reflect: Len of non-array type "+typeStr(t))
	case "NumIn", "NumOut", "In", "Out", "IsVariadic":
		sig, ok := t.Underlying().(*types.Signature)
		if !ok {
			ex.strPanic(nil, token.NoPos, "reflect: "+m+" of non-func type "+typeStr(t))
		}
		switch m {
		case "NumIn":
			return bvConst(64, uint64(sig.Params().Len()))
		case "NumOut":
			return bvConst(64, uint64(sig.Results().Len()))
		case "IsVariadic":
			return boolConst(sig.Variadic())
		case "In":
			i := ex.concInt(args[0], "In")
			if i < 0 || i >= sig.Params().Len() {
				ex.rtPanic(nil, token.NoPos, "index out of range")
			}
			return ex.rtypeIface(sig.Params().At(i).Type())
		default:
			i := ex.concInt(args[0], "Out")
			if i < 0 || i >= sig.Results().Len() {
				ex.rtPanic(nil, token.NoPos, "index out of range")
			}
			return ex.rtypeIface(sig.Results().At(i).Type())
		}
	case "NumField":
		st, ok := t.Underlying().(*types.Struct)
		if !ok {
			ex.strPanic(nil, token.NoPos, "reflect: NumField of non-struct type "+typeStr(t))
		}
		return bvConst(64, uint64(st.NumFields()))
	case "Field":
		st, ok := t.Underlying().(*types.Struct)
		if !ok {
			ex.strPanic(nil, token.NoPos, "reflect: Field of non-struct type "+typeStr(t))
		}
		i := ex.concInt(args[0], "Field")
		if i < 0 || i >= st.NumFields() {
			ex.strPanic(nil, token.NoPos, "reflect: Field index out of bounds")
		}
		return ex.structFieldValue(t, []int{i})
	case "FieldByName":
		if _, ok := t.Underlying().(*types.Struct); !ok {
			ex.strPanic(nil, token.NoPos, "reflect: FieldByName of non-struct type "+typeStr(t))
		}
		name := ex.concStr(args[0].(StrV), "Type.FieldByName")
		path, ok := fieldPathByName(t, func(s string) bool { return s == name })
		if !ok {
			return TupleV{ex.zero(ex.lookupType("reflect", "StructField")), termFalse}
		}
		return TupleV{ex.structFieldValue(t, path), termTrue}
	case "FieldByNameFunc":
		if _, ok := t.Underlying().(*types.Struct); !ok {
			ex.strPanic(nil, token.NoPos, "reflect: FieldByNameFunc of non-struct type "+typeStr(t))
		}
		fv := args[0].(*FuncV)
		path, ok := fieldPathByName(t, func(s string) bool {
			r := ex.callValue(fv, []Value{StrV{s: s}}, nil, token.NoPos).(*Term)
			return ex.decide(r)
		})
		if !ok {
			return TupleV{ex.zero(ex.lookupType("reflect", "StructField")), termFalse}
		}
		return TupleV{ex.structFieldValue(t, path), termTrue}
	case "Implements":
		u := ex.rtypeArg(args[0], nil, token.NoPos, "Implements")
		it, ok := u.Underlying().(*types.Interface)
		if !ok {
			ex.strPanic(nil, token.NoPos, "reflect: non-interface type passed to Type.Implements")
		}
		return boolConst(types.Implements(t, it))
	case "AssignableTo":
		return boolConst(types.AssignableTo(t, ex.rtypeArg(args[0], nil, token.NoPos, "AssignableTo")))
	case "ConvertibleTo":
		return boolConst(types.ConvertibleTo(t, ex.rtypeArg(args[0], nil, token.NoPos, "ConvertibleTo")))
	case "Comparable":
		return boolConst(types.Comparable(t))
	case "NumMethod":
		return bvConst(64, uint64(types.NewMethodSet(t).Len()))
	}
	panic(unsupported{"reflect.Type." + m})
}

func (ex *Exec) rvCall(r RVal, in SliceV, fr *Frame, pos token.Pos) Value {
	fv := r.get().(*FuncV)
	if fv == nil {
		ex.strPanic(fr, pos, "reflect: call of nil function")
	}
	sig := r.typ.Underlying().(*types.Signature)
	if sig.Variadic() {
		panic(unsupported{"reflect Call of variadic"})
	}
	if in.n < sig.Params().Len() {
		ex.strPanic(fr, pos, "reflect: Call with too few input arguments")
	}
	if in.n > sig.Params().Len() {
		ex.strPanic(fr, pos, "reflect: Call with too many input arguments")
	}
	args := make([]Value, in.n)
	for i := 0; i < in.n; i++ {
		a := load(in.arr[in.off+i]).(RVal)
		if a.typ == nil {
			ex.strPanic(fr, pos, "reflect: Call using zero Value argument")
		}
		pt := sig.Params().At(i).Type()
		if !types.AssignableTo(a.typ, pt) && !(isInterface(a.typ)) {
			ex.strPanic(fr, pos, "reflect: Call using "+typeStr(a.typ)+" as type "+typeStr(pt))
		}
		args[i] = ex.assignTo(fr, pos, "reflect: Call", a, pt)
	}
	res := ex.callValue(fv, args, fr, pos)
	n := sig.Results().Len()
	outs := make([]RVal, n)
	switch n {
	case 0:
	case 1:
		outs[0] = RVal{typ: sig.Results().At(0).Type(), v: res}
	default:
		tv := res.(TupleV)
		for i := range outs {
			outs[i] = RVal{typ: sig.Results().At(i).Type(), v: tv[i]}
		}
	}
	return ex.rvalSlice(outs)
}

// reflectDeepEqual: reflect.DeepEqual on interface values (NaN != NaN, nil slice/map differ from empty).
func (ex *Exec) reflectDeepEqual(a, b IfaceV, depth int) *Term {
	if a.typ == nil || b.typ == nil {
		return boolConst(a.typ == nil && b.typ == nil)
	}
	if !types.Identical(a.typ, b.typ) {
		return termFalse
	}
	return ex.rde(a.v, b.v, a.typ, depth)
}

func (ex *Exec) rde(a, b Value, t types.Type, depth int) *Term {
	if depth > 40 {
		panic(unsupported{"DeepEqual too deep"})
	}
	switch x := a.(type) {
	case *Term:
		return tEq(x, b.(*Term))
	case StrV:
		return ex.strEq(x, b.(StrV))
	case IfaceV:
		return ex.reflectDeepEqual(x, b.(IfaceV), depth+1)
	case Ptr:
		y := b.(Ptr)
		if x.c == y.c {
			return termTrue
		}
		if x.c == nil || y.c == nil {
			return termFalse
		}
		return ex.rde(load(x.c), load(y.c), x.c.typ, depth+1)
	case SliceV:
		y := b.(SliceV)
		if x.isNil() != y.isNil() || x.n != y.n {
			return termFalse
		}
		r := termTrue
		et := t.Underlying().(*types.Slice).Elem()
		for i := 0; i < x.n; i++ {
			r = tAnd(r, ex.rde(load(x.arr[x.off+i]), load(y.arr[y.off+i]), et, depth+1))
		}
		return r
	case StructV:
		y := b.(StructV)
		r := termTrue
		switch u := t.Underlying().(type) {
		case *types.Struct:
			for i := range x {
				r = tAnd(r, ex.rde(x[i], y[i], u.Field(i).Type(), depth+1))
			}
		case *types.Array:
			for i := range x {
				r = tAnd(r, ex.rde(x[i], y[i], u.Elem(), depth+1))
			}
		}
		return r
	case *MapObj:
		y := b.(*MapObj)
		if (x == nil) != (y == nil) {
			return termFalse
		}
		if x == nil {
			return termTrue
		}
		if len(x.entries) != len(y.entries) {
			return termFalse
		}
		if x == y {
			return termTrue
		}
		r := termTrue
		for _, e := range x.entries {
			found := termFalse
			for _, f := range y.entries {
				keq := ex.equal(e.key, f.key, x.typ.Key())
				if keq.conc && keq.cv == 0 {
					continue
				}
				found = tOr(found, tAnd(keq, ex.rde(e.val, f.val, x.typ.Elem(), depth+1)))
			}
			r = tAnd(r, found)
		}
		return r
	case *FuncV:
		y := b.(*FuncV)
		return boolConst(x == nil && y == nil)
	}
	panic(unsupported{fmt.Sprintf("DeepEqual on %T", a)})
}
