// String values: concrete, finite-universe, length-only, symbolic bytes, decimal renderings.
package main

import (
	"fmt"
	"go/token"
	"go/types"
	"strconv"
	"sync/atomic"
)

var symStrCounter int64

func newSymStr(k symKind) *SymStr {
	return &SymStr{kind: k, id: atomic.AddInt64(&symStrCounter, 1)}
}

func concStrV(s string) StrV { return StrV{s: s} }

// concStr makes a string concrete. Universe strings fork over their alternatives; other symbolic kinds cannot.
func (ex *Exec) concStr(s StrV, why string) string {
	if s.sym == nil {
		return s.s
	}
	switch s.sym.kind {
	case symUniverse:
		if s.sym.idx.conc {
			return s.sym.strs[s.sym.idx.cv]
		}
		n := len(s.sym.strs)
		for i := 0; i < n-1; i++ {
			if ex.decide(tEq(s.sym.idx, bvConst(32, uint64(i)))) {
				return s.sym.strs[i]
			}
		}
		return s.sym.strs[n-1]
	case symBytes:
		all := true
		bs := make([]byte, len(s.sym.bytes))
		for i, b := range s.sym.bytes {
			if !b.conc {
				all = false
				break
			}
			bs[i] = byte(b.cv)
		}
		if all {
			return string(bs)
		}
	case symConcat:
		if bs, ok := ex.asBytes(s); ok {
			all := true
			out := make([]byte, len(bs))
			for i, b := range bs {
				if !b.conc {
					all = false
					break
				}
				out[i] = byte(b.cv)
			}
			if all {
				return string(out)
			}
		}
	case symDec:
		if s.sym.val.conc {
			if s.sym.signed {
				return strconv.FormatInt(s.sym.val.sval(), 10)
			}
			return strconv.FormatUint(s.sym.val.cv, 10)
		}
	}
	panic(unsupported{"concrete content of symbolic string needed: " + why})
}

func (ex *Exec) strLen(s StrV) *Term {
	if s.sym == nil {
		return bvConst(64, uint64(len(s.s)))
	}
	switch s.sym.kind {
	case symUniverse:
		r := bvConst(64, uint64(len(s.sym.strs[len(s.sym.strs)-1])))
		for i := len(s.sym.strs) - 2; i >= 0; i-- {
			r = tIte(tEq(s.sym.idx, bvConst(32, uint64(i))), bvConst(64, uint64(len(s.sym.strs[i]))), r)
		}
		return r
	case symLen:
		return s.sym.length
	case symBytes:
		return bvConst(64, uint64(len(s.sym.bytes)))
	case symDec:
		if s.sym.lowered != nil {
			return bvConst(64, uint64(len(s.sym.lowered.bytes)))
		}
		return decLen(s.sym.val, s.sym.signed)
	case symConcat:
		if s.sym.lowered != nil {
			return bvConst(64, uint64(len(s.sym.lowered.bytes)))
		}
		r := bvConst(64, 0)
		for _, p := range s.sym.parts {
			r = bvAdd(r, ex.strLen(p))
		}
		return r
	}
	panic(unsupported{"len of opaque string"})
}

// decLen is the number of characters of the decimal rendering of v.
func decLen(v *Term, signed bool) *Term {
	mag := v
	neg := termFalse
	if signed {
		neg = bvSlt(v, bvConst(v.w, 0))
		mag = tIte(neg, bvNeg(v), v) // MinInt64 stays 0x8000.. which as unsigned is the right magnitude
	}
	mag = bvResize(mag, 64, false)
	r := bvConst(64, 20)
	p := uint64(10000000000000000000)
	for d := 19; d >= 1; d-- {
		r = tIte(bvUlt(mag, bvConst(64, p)), bvConst(64, uint64(d)), r)
		p /= 10
	}
	return bvAdd(r, tIte(neg, bvConst(64, 1), bvConst(64, 0)))
}

func (ex *Exec) strEq(a, b StrV) *Term {
	if a.sym == nil && b.sym == nil {
		return boolConst(a.s == b.s)
	}
	if a.sym == nil {
		a, b = b, a
	}
	// a symbolic
	if b.sym != nil && a.sym == b.sym {
		return termTrue
	}
	if a.sym.kind == symConcat || (b.sym != nil && b.sym.kind == symConcat) {
		ab, ok1 := ex.asBytes(a)
		bb, ok2 := ex.asBytes(b)
		if ok1 && ok2 {
			if len(ab) != len(bb) {
				return termFalse
			}
			r := termTrue
			for i := range ab {
				r = tAnd(r, tEq(ab[i], bb[i]))
			}
			return r
		}
		panic(unsupported{"string equality on a concatenation with unknown content"})
	}
	switch a.sym.kind {
	case symUniverse:
		if b.sym == nil {
			r := termFalse
			for i, s := range a.sym.strs {
				if s == b.s {
					r = tOr(r, tEq(a.sym.idx, bvConst(32, uint64(i))))
				}
			}
			return r
		}
		if b.sym.kind == symUniverse {
			r := termFalse
			for i, s := range a.sym.strs {
				for j, t := range b.sym.strs {
					if s == t {
						r = tOr(r, tAnd(tEq(a.sym.idx, bvConst(32, uint64(i))), tEq(b.sym.idx, bvConst(32, uint64(j)))))
					}
				}
			}
			return r
		}
	case symBytes:
		if b.sym == nil {
			if len(b.s) != len(a.sym.bytes) {
				return termFalse
			}
			r := termTrue
			for i := range a.sym.bytes {
				r = tAnd(r, tEq(a.sym.bytes[i], bvConst(8, uint64(b.s[i]))))
			}
			return r
		}
		if b.sym.kind == symBytes {
			if len(b.sym.bytes) != len(a.sym.bytes) {
				return termFalse
			}
			r := termTrue
			for i := range a.sym.bytes {
				r = tAnd(r, tEq(a.sym.bytes[i], b.sym.bytes[i]))
			}
			return r
		}
	case symDec:
		if b.sym != nil && b.sym.kind == symDec && b.sym.signed == a.sym.signed && a.sym.val.w == b.sym.val.w {
			return tEq(a.sym.val, b.sym.val)
		}
		if b.sym == nil {
			// equal iff b parses canonically to the value
			if a.sym.signed {
				if n, err := strconv.ParseInt(b.s, 10, 64); err == nil && strconv.FormatInt(n, 10) == b.s {
					return tEq(bvResize(a.sym.val, 64, true), bvConst(64, uint64(n)))
				}
			} else if n, err := strconv.ParseUint(b.s, 10, 64); err == nil && strconv.FormatUint(n, 10) == b.s {
				return tEq(bvResize(a.sym.val, 64, false), bvConst(64, n))
			}
			return termFalse
		}
	case symLen:
		if b.sym == nil {
			// different length => different; equal length => unknown content
			if a.sym.length.conc && int(a.sym.length.cv) != len(b.s) {
				return termFalse
			}
		}
	}
	panic(unsupported{fmt.Sprintf("string equality on symbolic kinds %d", a.sym.kind)})
}

func (ex *Exec) strConcat(a, b StrV) Value {
	if a.sym == nil && b.sym == nil {
		return StrV{s: a.s + b.s}
	}
	if a.sym == nil && a.s == "" {
		return b
	}
	if b.sym == nil && b.s == "" {
		return a
	}
	// a universe string joined with a concrete one is again a universe string over the same index variable
	if a.sym != nil && a.sym.kind == symUniverse && b.sym == nil {
		ns := newSymStr(symUniverse)
		ns.idx, ns.name = a.sym.idx, a.sym.name
		for _, x := range a.sym.strs {
			ns.strs = append(ns.strs, x+b.s)
		}
		return StrV{sym: ns}
	}
	if b.sym != nil && b.sym.kind == symUniverse && a.sym == nil {
		ns := newSymStr(symUniverse)
		ns.idx, ns.name = b.sym.idx, b.sym.name
		for _, x := range b.sym.strs {
			ns.strs = append(ns.strs, a.s+x)
		}
		return StrV{sym: ns}
	}
	if a.sym != nil && a.sym.kind == symUniverse && b.sym != nil && b.sym.kind == symUniverse && a.sym.idx == b.sym.idx && len(a.sym.strs) == len(b.sym.strs) {
		ns := newSymStr(symUniverse)
		ns.idx, ns.name = a.sym.idx, a.sym.name
		for i := range a.sym.strs {
			ns.strs = append(ns.strs, a.sym.strs[i]+b.sym.strs[i])
		}
		return StrV{sym: ns}
	}
	if (a.sym != nil && a.sym.kind == symOpaque) || (b.sym != nil && b.sym.kind == symOpaque) {
		return StrV{sym: newSymStr(symOpaque)} // content unknown
	}
	// both byte-level already (no forking needed): join now
	if (a.sym == nil || a.sym.kind == symBytes) && (b.sym == nil || b.sym.kind == symBytes) {
		ab, _ := ex.asBytes(a)
		bb, _ := ex.asBytes(b)
		ns := newSymStr(symBytes)
		ns.bytes = append(append([]*Term{}, ab...), bb...)
		return StrV{sym: ns}
	}
	// otherwise a rope: decimal renderings and universe strings stay symbolic until bytes are really needed
	ns := newSymStr(symConcat)
	add := func(x StrV) {
		if x.sym != nil && x.sym.kind == symConcat {
			ns.parts = append(ns.parts, x.sym.parts...)
			return
		}
		if n := len(ns.parts); n > 0 && x.sym == nil && ns.parts[n-1].sym == nil {
			ns.parts[n-1] = StrV{s: ns.parts[n-1].s + x.s}
			return
		}
		ns.parts = append(ns.parts, x)
	}
	add(a)
	add(b)
	return StrV{sym: ns}
}

// asBytes views a string as a sequence of byte terms when its length is concrete.
func (ex *Exec) asBytes(s StrV) ([]*Term, bool) {
	if s.sym == nil {
		bs := make([]*Term, len(s.s))
		for i := 0; i < len(s.s); i++ {
			bs[i] = bvConst(8, uint64(s.s[i]))
		}
		return bs, true
	}
	if s.sym.kind == symBytes {
		return s.sym.bytes, true
	}
	if s.sym.kind == symConcat {
		if s.sym.lowered == nil {
			ns := newSymStr(symBytes)
			for _, p := range s.sym.parts {
				if p.sym != nil && p.sym.kind == symUniverse {
					p = StrV{s: ex.concStr(p, "bytes of a universe string inside a concatenation")}
				}
				pb, ok := ex.asBytes(p)
				if !ok {
					return nil, false
				}
				ns.bytes = append(ns.bytes, pb...)
			}
			s.sym.lowered = ns
		}
		return s.sym.lowered.bytes, true
	}
	if s.sym.kind == symDec {
		// decimal rendering: fork on the digit count once per string (memoised), digits become byte variables
		if s.sym.lowered == nil {
			if s.sym.val.conc {
				c := ex.concStr(s, "dec")
				return ex.asBytes(StrV{s: c})
			}
			l := ex.lowerDec(s)
			s.sym.lowered = l.sym
		}
		return s.sym.lowered.bytes, true
	}
	return nil, false
}

func (ex *Exec) strIndex(fr *Frame, s StrV, idx *Term, pos token.Pos) Value {
	bs, ok := ex.asBytes(s)
	if !ok {
		c := ex.concStr(s, "string index")
		bs, _ = ex.asBytes(StrV{s: c})
	}
	idx = bvResize(idx, 64, true)
	if idx.conc {
		i := idx.sval()
		if i < 0 || i >= int64(len(bs)) {
			ex.rtPanic(fr, pos, fmt.Sprintf("index out of range [%d] with length %d", i, len(bs)))
		}
		return bs[i]
	}
	if !ex.decide(bvUlt(idx, bvConst(64, uint64(len(bs))))) {
		ex.rtPanic(fr, pos, "index out of range")
	}
	r := bs[len(bs)-1]
	for i := len(bs) - 2; i >= 0; i-- {
		r = tIte(tEq(idx, bvConst(64, uint64(i))), bs[i], r)
	}
	return r
}

func (ex *Exec) strSlice(fr *Frame, s StrV, lo, hi int, pos token.Pos) Value {
	bs, ok := ex.asBytes(s)
	if !ok {
		c := ex.concStr(s, "string slice")
		if hi < 0 {
			hi = len(c)
		}
		if lo < 0 || lo > hi || hi > len(c) {
			ex.rtPanic(fr, pos, "slice bounds out of range")
		}
		return StrV{s: c[lo:hi]}
	}
	if hi < 0 {
		hi = len(bs)
	}
	if lo < 0 || lo > hi || hi > len(bs) {
		ex.rtPanic(fr, pos, fmt.Sprintf("slice bounds out of range [%d:%d] with length %d", lo, hi, len(bs)))
	}
	if s.sym == nil {
		return StrV{s: s.s[lo:hi]}
	}
	ns := newSymStr(symBytes)
	ns.bytes = bs[lo:hi]
	return ex.normBytes(ns)
}

// normBytes turns an all-concrete byte string back into a concrete string.
func (ex *Exec) normBytes(ns *SymStr) StrV {
	bs := make([]byte, len(ns.bytes))
	for i, b := range ns.bytes {
		if !b.conc {
			return StrV{sym: ns}
		}
		bs[i] = byte(b.cv)
	}
	return StrV{s: string(bs)}
}

func (ex *Exec) strToBytes(s StrV, st *types.Slice) SliceV {
	bs, ok := ex.asBytes(s)
	if !ok {
		if s.sym != nil && s.sym.kind == symDec {
			s = ex.lowerDec(s)
			bs, _ = ex.asBytes(s)
		} else {
			c := ex.concStr(s, "[]byte(s)")
			bs, _ = ex.asBytes(StrV{s: c})
		}
	}
	arr := make([]*Cell, len(bs))
	for i, b := range bs {
		arr[i] = ex.newCellVal(st.Elem(), b)
	}
	return SliceV{arr: arr, n: len(arr), cp: len(arr), nonNil: true}
}

func (ex *Exec) bytesToStr(s SliceV, st *types.Slice) Value {
	ns := newSymStr(symBytes)
	for i := 0; i < s.n; i++ {
		t, ok := load(s.arr[s.off+i]).(*Term)
		if !ok || t.w != 8 {
			// []rune -> string
			if ok && t.w == 32 && t.conc {
				rs := make([]rune, s.n)
				for j := 0; j < s.n; j++ {
					rs[j] = rune(load(s.arr[s.off+j]).(*Term).sval())
				}
				return StrV{s: string(rs)}
			}
			panic(unsupported{"string(slice) of non-bytes"})
		}
		ns.bytes = append(ns.bytes, t)
	}
	return ex.normBytes(ns)
}

// lowerDec turns a Dec string into a Bytes string by forking on the digit count; the digits are fresh byte
// variables constrained by value = sum d_i*10^i (digits primary, no division in the formula).
func (ex *Exec) lowerDec(s StrV) StrV {
	d := s.sym
	v := bvResize(d.val, 64, d.signed)
	neg := false
	if d.signed {
		if ex.decide(bvSlt(v, bvConst(64, 0))) {
			neg = true
			v = bvNeg(v)
		}
	}
	// choose digit count
	n := 20
	p := uint64(10)
	for k := 1; k <= 19; k++ {
		if ex.decide(bvUlt(v, bvConst(64, p))) {
			n = k
			break
		}
		p *= 10
	}
	ns := newSymStr(symBytes)
	if neg {
		ns.bytes = append(ns.bytes, bvConst(8, '-'))
	}
	sum := bvConst(64, 0)
	digs := make([]*Term, n)
	for i := 0; i < n; i++ {
		name := fmt.Sprintf("dig%d_%d", d.id, i)
		dg := ex.freshInternal(name, SBV, 8)
		ex.assume(tAnd(bvUle(bvConst(8, '0'), dg), bvUle(dg, bvConst(8, '9'))))
		digs[i] = dg
	}
	pow := uint64(1)
	for i := n - 1; i >= 0; i-- {
		dv := bvSub(bvResize(digs[i], 64, false), bvConst(64, '0'))
		sum = bvAdd(sum, bvMul(dv, bvConst(64, pow)))
		pow *= 10
	}
	if n > 1 {
		ex.assume(tNot(tEq(digs[0], bvConst(8, '0'))))
	}
	ex.assume(tEq(sum, v))
	ns.bytes = append(ns.bytes, digs...)
	return StrV{sym: ns}
}

// byteForm turns ropes and decimal renderings into byte-level strings (forking on digit counts as needed); other
// strings are returned unchanged.
func (ex *Exec) byteForm(s StrV) StrV {
	if s.sym == nil {
		return s
	}
	switch s.sym.kind {
	case symConcat, symDec:
		if bs, ok := ex.asBytes(s); ok {
			ns := newSymStr(symBytes)
			ns.bytes = bs
			return ex.normBytes(ns)
		}
	}
	return s
}
