package atp

import (
	"context"
	"sync"

	"github.com/fxamacker/cbor/v2"
	"go.flow.arcalot.io/pluginsdk/schema"
)

// C07 — the ATP server survives any client and answers each accepted run exactly once.
// The harness is the client: it speaks raw CBOR messages to the real RunATPServer.

func init() {
	verifRegister("VerifC07_Messages", VerifC07_Messages)
	verifRegister("VerifC07_EndOfInputWhileRunning", VerifC07_EndOfInputWhileRunning)
}

const (
	behaveOK = iota
	behaveUndeclared
	behaveInvalidData
	behavePanic
	behaveCount
)

func verifBehavingPlugin(mode int, release chan struct{}) *schema.CallableSchema {
	intProp := func() *schema.PropertySchema {
		return schema.NewPropertySchema(schema.NewIntSchema(nil, nil, nil), nil, true, nil, nil, nil, nil, nil)
	}
	return schema.NewCallableSchema(
		schema.NewCallableStepWithSignals[*int, map[string]any](
			"inc",
			schema.NewScopeSchema(schema.NewObjectSchema("In", map[string]*schema.PropertySchema{"n": intProp()})),
			map[string]*schema.StepOutputSchema{
				"ok": schema.NewStepOutputSchema(schema.NewScopeSchema(schema.NewObjectSchema("Out", map[string]*schema.PropertySchema{"o": intProp()})), nil, false),
			},
			map[string]schema.CallableSignal{
				"sig": schema.NewCallableSignal[*int, map[string]any]("sig",
					schema.NewScopeSchema(schema.NewObjectSchema("Sig", map[string]*schema.PropertySchema{})), nil,
					func(ctx context.Context, d *int, in map[string]any) {}),
			},
			nil, nil,
			func() *int { v := 0; return &v },
			func(ctx context.Context, d *int, in map[string]any) (string, any) {
				if release != nil {
					<-release
				}
				switch mode {
				case behaveUndeclared:
					return "nope", map[string]any{}
				case behaveInvalidData:
					return "ok", map[string]any{"o": "notanumber"}
				case behavePanic:
					panic("step handler panics")
				}
				return "ok", map[string]any{"o": in["n"]}
			},
		),
	)
}

type verifRawClient struct {
	enc       *cbor.Encoder
	toSrvW    interface{ Close() error }
	srvErrs   []*ServerError
	srvDone   sync.WaitGroup
	readDone  sync.WaitGroup
	helloOK   bool
	terminals map[string]int // run id -> terminal messages (work-done or step-fatal error)
	others    int
}

func verifStartRawClient(plugin *schema.CallableSchema) *verifRawClient {
	verifSchedQuiet(true)
	defer verifSchedQuiet(false)
	toSrvR, toSrvW := verifNewPipe()
	fromSrvR, fromSrvW := verifNewPipe()
	c := &verifRawClient{enc: cbor.NewEncoder(toSrvW), toSrvW: toSrvW, terminals: map[string]int{}}
	c.srvDone.Add(1)
	go func() {
		defer c.srvDone.Done()
		c.srvErrs = RunATPServer(context.Background(), toSrvR, fromSrvW, plugin)
		_ = fromSrvW.Close()
	}()
	c.readDone.Add(1)
	go func() {
		defer c.readDone.Done()
		dec := cbor.NewDecoder(fromSrvR)
		var hello HelloMessage
		if err := dec.Decode(&hello); err != nil {
			return
		}
		c.helloOK = hello.Version == ProtocolVersion
		for {
			var m DecodedRuntimeMessage
			if err := dec.Decode(&m); err != nil {
				return
			}
			switch m.MessageID {
			case MessageTypeWorkDone:
				c.terminals[m.RunID]++
			case MessageTypeError:
				var e ErrorMessage
				if err := cbor.Unmarshal(m.RawMessageData, &e); err == nil && e.StepFatal && m.RunID != "" {
					c.terminals[m.RunID]++
				} else {
					c.others++
				}
			default:
				c.others++
			}
		}
	}()
	_ = c.enc.Encode(nil) // start-output message
	return c
}

func VerifC07_Messages() {
	mode := nondetChoice("behaviour", behaveCount)
	c := verifStartRawClient(verifBehavingPlugin(mode, nil))
	verifReach("C07/messages/started")
	// the message grammar is explored under the run-until-block schedule; VerifC07_Schedules varies the schedule
	verifSchedBound(0)
	k := 2
	expected := map[string]int{}
	runs := [3]string{"r1", "r2", "r3"}
	clientDone := false
	for i := 0; i < k && !clientDone; i++ {
		kind := nondetChoice(verifNm("kind", i), 12)
		run := runs[i]
		switch kind {
		case 9: // a valid signal for the first run (which may or may not exist)
			_ = c.enc.Encode(RuntimeMessage{MessageTypeSignal, runs[0], SignalMessage{SignalID: "sig", Data: map[string]any{}}})
		case 10: // unknown signal id for the first run
			_ = c.enc.Encode(RuntimeMessage{MessageTypeSignal, runs[0], SignalMessage{SignalID: "nosuchsignal", Data: map[string]any{}}})
		case 11: // wrongly typed signal data for the first run
			_ = c.enc.Encode(RuntimeMessage{MessageTypeSignal, runs[0], SignalMessage{SignalID: "sig", Data: []any{int64(1)}}})
		case 0: // valid work-start
			_ = c.enc.Encode(RuntimeMessage{MessageTypeWorkStart, run, WorkStartMessage{StepID: "inc", Config: map[string]any{"n": nondetInt64(verifNm("n", i))}}})
			expected[run]++
		case 1: // unknown step: accepted, the step call fails
			_ = c.enc.Encode(RuntimeMessage{MessageTypeWorkStart, run, WorkStartMessage{StepID: "zz", Config: map[string]any{}}})
			expected[run]++
		case 2: // missing run id
			_ = c.enc.Encode(RuntimeMessage{MessageTypeWorkStart, "", WorkStartMessage{StepID: "inc", Config: map[string]any{}}})
		case 3: // signal for an unknown run
			_ = c.enc.Encode(RuntimeMessage{MessageTypeSignal, "r9", SignalMessage{SignalID: "sig", Data: map[string]any{}}})
		case 4: // unknown message id
			id := nondetUint32(verifNm("msgid", i))
			verifAssume(vOr(id == 0, id > 5))
			_ = c.enc.Encode(RuntimeMessage{id, run, map[string]any{}})
		case 5: // wrongly typed payload: the run is failed with a step-fatal error
			_ = c.enc.Encode(RuntimeMessage{MessageTypeWorkStart, run, "not a work start message"})
			expected[run]++
		case 6: // input the step's schema rejects
			_ = c.enc.Encode(RuntimeMessage{MessageTypeWorkStart, run, WorkStartMessage{StepID: "inc", Config: map[string]any{"n": "x"}}})
			expected[run]++
		case 7: // missing step id
			_ = c.enc.Encode(RuntimeMessage{MessageTypeWorkStart, run, WorkStartMessage{StepID: "", Config: map[string]any{}}})
		case 8: // client done
			_ = c.enc.Encode(RuntimeMessage{MessageTypeClientDone, "", clientDoneMessage{}})
			clientDone = true
		}
	}
	if !clientDone {
		if nondetBool("endWithClientDone") {
			verifSettle() // let the running steps answer while the output is open
			_ = c.enc.Encode(RuntimeMessage{MessageTypeClientDone, "", clientDoneMessage{}})
		} else {
			verifSettle()
			_ = c.toSrvW.Close() // end of input
		}
	}
	c.srvDone.Wait()
	c.readDone.Wait()
	verifAssert("C07/messages/hello", c.helloOK)
	for _, run := range runs {
		// also when client-done follows the work-start at once: the output stays open until the server returns
		verifAssert("C07/messages/exactly-one-terminal-message-per-accepted-run", c.terminals[run] == expected[run])
	}
	verifObserve("errors", len(c.srvErrs))
	verifReach("C07/messages/end")
}

// a fixed conversation (two runs and a signal) under every schedule with bounded preemptions
func VerifC07_Schedules() {
	mode := nondetChoice("behaviour", behaveCount)
	c := verifStartRawClient(verifBehavingPlugin(mode, nil))
	verifReach("C07/schedules/started")
	_ = c.enc.Encode(RuntimeMessage{MessageTypeWorkStart, "r1", WorkStartMessage{StepID: "inc", Config: map[string]any{"n": nondetInt64("n1")}}})
	_ = c.enc.Encode(RuntimeMessage{MessageTypeSignal, "r1", SignalMessage{SignalID: "sig", Data: map[string]any{}}})
	_ = c.enc.Encode(RuntimeMessage{MessageTypeWorkStart, "r2", WorkStartMessage{StepID: "inc", Config: map[string]any{"n": nondetInt64("n2")}}})
	verifSettle()
	_ = c.enc.Encode(RuntimeMessage{MessageTypeClientDone, "", clientDoneMessage{}})
	c.srvDone.Wait()
	c.readDone.Wait()
	verifAssert("C07/schedules/exactly-one-terminal-r1", c.terminals["r1"] == 1)
	verifAssert("C07/schedules/exactly-one-terminal-r2", c.terminals["r2"] == 1)
	verifReach("C07/schedules/end")
}

func init() { verifRegister("VerifC07_Schedules", VerifC07_Schedules) }

// input ends while a step is still running; the step then finishes in each of its behaviours
func VerifC07_EndOfInputWhileRunning() {
	mode := nondetChoice("behaviour", behaveCount)
	release := make(chan struct{})
	c := verifStartRawClient(verifBehavingPlugin(mode, release))
	verifReach("C07/eoi/started")
	_ = c.enc.Encode(RuntimeMessage{MessageTypeWorkStart, "r1", WorkStartMessage{StepID: "inc", Config: map[string]any{"n": nondetInt64("n")}}})
	verifSettle()
	orderly := nondetBool("clientDone")
	if orderly {
		_ = c.enc.Encode(RuntimeMessage{MessageTypeClientDone, "", clientDoneMessage{}})
	} else {
		_ = c.toSrvW.Close()
	}
	verifSettle()
	close(release) // the step finishes only now
	c.srvDone.Wait()
	c.readDone.Wait()
	if orderly {
		verifAssert("C07/eoi/exactly-one-terminal", c.terminals["r1"] == 1)
	} else {
		// an abrupt end of input is reported as a server-fatal error; the output is still open, so the run
		// that was in flight is answered all the same
		verifAssert("C07/eoi/exactly-one-terminal-after-abrupt-end", c.terminals["r1"] == 1)
		verifAssert("C07/eoi/abrupt-end-reported", c.others >= 1)
	}
	verifObserve("terminals", c.terminals["r1"])
	verifReach("C07/eoi/end")
}

// the end of input follows the work-start immediately (no waiting for the answer): the accepted, succeeding runs are
// still answered exactly once before RunATPServer returns, under every bounded schedule
func VerifC07_EndRightAfterStart() {
	c := verifStartRawClient(verifBehavingPlugin(behaveOK, nil))
	verifReach("C07/endafterstart/started")
	if verifTier() > 0 {
		verifSchedBound(2) // thorough: every pair of preemptions
	}
	two := nondetBool("twoRuns")
	_ = c.enc.Encode(RuntimeMessage{MessageTypeWorkStart, "r1", WorkStartMessage{StepID: "inc", Config: map[string]any{"n": nondetInt64("n1")}}})
	if two {
		_ = c.enc.Encode(RuntimeMessage{MessageTypeWorkStart, "r2", WorkStartMessage{StepID: "inc", Config: map[string]any{"n": nondetInt64("n2")}}})
	}
	if nondetBool("clientDone") {
		_ = c.enc.Encode(RuntimeMessage{MessageTypeClientDone, "", clientDoneMessage{}})
	} else {
		_ = c.toSrvW.Close()
	}
	c.srvDone.Wait()
	c.readDone.Wait()
	verifAssert("C07/endafterstart/exactly-one-terminal-r1", c.terminals["r1"] == 1)
	if two {
		verifAssert("C07/endafterstart/exactly-one-terminal-r2", c.terminals["r2"] == 1)
	}
	verifObserve("errors", len(c.srvErrs))
	verifReach("C07/endafterstart/end")
}

func init() { verifRegister("VerifC07_EndRightAfterStart", VerifC07_EndRightAfterStart) }

// several steps are still running when the input ends; each then fails: RunATPServer must still return (the error
// channel has room for three errors only) and report every failure
func VerifC07_ManyFailuresAfterEndOfInput() {
	mode := 1 + nondetChoice("behaviour", behaveCount-1) // a failing behaviour
	release := make(chan struct{})
	c := verifStartRawClient(verifBehavingPlugin(mode, release))
	verifReach("C07/manyfail/started")
	nRuns := 4 + nondetChoice("extraRuns", 2)
	ids := [5]string{"r1", "r2", "r3", "r4", "r5"}
	for i := 0; i < nRuns; i++ {
		_ = c.enc.Encode(RuntimeMessage{MessageTypeWorkStart, ids[i], WorkStartMessage{StepID: "inc", Config: map[string]any{"n": int64(i)}}})
	}
	verifSettle()
	orderly := nondetBool("clientDone")
	if orderly {
		_ = c.enc.Encode(RuntimeMessage{MessageTypeClientDone, "", clientDoneMessage{}})
	} else {
		_ = c.toSrvW.Close()
	}
	verifSettle()
	close(release)
	c.srvDone.Wait()
	c.readDone.Wait()
	for i := 0; i < nRuns; i++ {
		verifAssert("C07/manyfail/exactly-one-terminal-per-run", c.terminals[ids[i]] == 1)
	}
	verifReach("C07/manyfail/end")
}

func init() { verifRegister("VerifC07_ManyFailuresAfterEndOfInput", VerifC07_ManyFailuresAfterEndOfInput) }

// a message that lacks the run_id field altogether (not an empty one) after a message that carried one: it must be
// treated as what it is - a message without run id - and not inherit the previous message's id
func VerifC07_AbsentRunIDField() {
	c := verifStartRawClient(verifBehavingPlugin(behaveOK, nil))
	verifReach("C07/absentid/started")
	_ = c.enc.Encode(RuntimeMessage{MessageTypeWorkStart, "r1", WorkStartMessage{StepID: "inc", Config: map[string]any{"n": nondetInt64("n1")}}})
	verifSettle()
	kind := nondetChoice("kind", 2)
	if kind == 0 {
		// a work-start with no run_id field
		_ = c.enc.Encode(map[string]any{"id": uint32(MessageTypeWorkStart), "data": map[string]any{"id": "inc", "config": map[string]any{"n": int64(7)}}})
	} else {
		// a signal with no run_id field
		_ = c.enc.Encode(map[string]any{"id": uint32(MessageTypeSignal), "data": map[string]any{"id": "sig", "data": map[string]any{}}})
	}
	verifSettle()
	_ = c.enc.Encode(RuntimeMessage{MessageTypeClientDone, "", clientDoneMessage{}})
	c.srvDone.Wait()
	c.readDone.Wait()
	verifAssert("C07/absentid/first-run-answered-exactly-once", c.terminals["r1"] == 1)
	verifAssert("C07/absentid/message-without-run-id-reported", c.others >= 1)
	verifReach("C07/absentid/end")
}

func init() { verifRegister("VerifC07_AbsentRunIDField", VerifC07_AbsentRunIDField) }
