package atp

import (
	"sync"

	"github.com/fxamacker/cbor/v2"
	"go.flow.arcalot.io/pluginsdk/schema"
)

// C06 — every Execute on a healthy connection returns exactly once under any schedule; Close returns.
// The obligation is the absence of a state in which the harness goroutine is blocked forever (the engine reports
// it as a deadlock with the schedule that leads there), plus the data assertions below.

func init() {
	verifRegister("VerifC06_BackToBack", VerifC06_BackToBack)
	verifRegister("VerifC06_Overlapping", VerifC06_Overlapping)
	verifRegister("VerifC06_SignalsBothWays", VerifC06_SignalsBothWays)
}

func verifExec(c Client, run string, n int64) ExecutionResult {
	return c.Execute(schema.Input{RunID: run, ID: "inc", InputData: map[string]any{"n": n}}, nil, nil)
}

func verifCheckResult(tag string, res ExecutionResult, n int64) {
	verifAssert(tag+"/no-error", res.Error == nil)
	if res.Error == nil {
		m, ok := res.OutputData.(map[any]any)
		verifAssert(tag+"/own-result", ok && res.OutputID == "ok" && verifWireInt(m["o"]) == n+1)
	}
}

// two executes one after the other on one client, then Close
func VerifC06_BackToBack() {
	calls := 0
	sess, err := verifStartSession(verifPluginSchema(&calls))
	verifAssert("C06/b2b/handshake", err == nil)
	if err != nil {
		return
	}
	verifReach("C06/b2b/started")
	if verifTier() > 0 {
		verifSchedBound(2) // thorough: every pair of preemptions
	}
	r1 := verifExec(sess.client, "r1", 1)
	verifCheckResult("C06/b2b/first", r1, 1)
	r2 := verifExec(sess.client, "r2", 5)
	verifCheckResult("C06/b2b/second", r2, 5)
	cerr := sess.client.Close()
	verifAssert("C06/b2b/close", cerr == nil)
	sess.srvDone.Wait()
	verifAssert("C06/b2b/handler-ran-twice", calls == 2)
	verifReach("C06/b2b/end")
}

// two executes at the same time
func VerifC06_Overlapping() {
	calls := 0
	sess, err := verifStartSession(verifPluginSchema(&calls))
	verifAssert("C06/overlap/handshake", err == nil)
	if err != nil {
		return
	}
	verifReach("C06/overlap/started")
	if verifTier() > 0 {
		verifSchedBound(2) // thorough: every pair of preemptions
	}
	verifSharedBegin(sess.client)
	var wg sync.WaitGroup
	var r1, r2 ExecutionResult
	wg.Add(2)
	go func() { defer wg.Done(); r1 = verifExec(sess.client, "r1", 1) }()
	go func() { defer wg.Done(); r2 = verifExec(sess.client, "r2", 5) }()
	wg.Wait()
	verifCheckResult("C06/overlap/first", r1, 1)
	verifCheckResult("C06/overlap/second", r2, 5)
	cerr := sess.client.Close()
	verifAssert("C06/overlap/close", cerr == nil)
	sess.srvDone.Wait()
	verifSharedCheck("C06/overlap/client-state-accessed-under-its-mutex")
	verifReach("C06/overlap/end")
}

// signal traffic in both directions: a (scripted, well-behaved) server sends nSig signals for the run before its
// work-done; the caller drains the emitted-signals channel until the client closes it, and sends one signal towards
// the step. Every Execute returns, every signal is delivered once and in order, the channel is closed after the
// result, Close returns and no goroutine of the client stays blocked.
func VerifC06_SignalsBothWays() {
	toSrvR, toSrvW := verifNewPipe()
	fromSrvR, fromSrvW := verifNewPipe()
	nSig := nondetChoice("nsig", 3)
	sendToStep := nondetBool("sendToStep")
	second := nondetBool("secondExecute")
	var srv sync.WaitGroup
	srv.Add(1)
	sigAtServer := 0
	verifSchedQuiet(true)
	go func() {
		defer srv.Done()
		enc, dec := cbor.NewEncoder(fromSrvW), cbor.NewDecoder(toSrvR)
		if !verifServeHello(enc, dec, fromSrvW, helloOK, 3) {
			return
		}
		runs := 1
		if second {
			runs = 2
		}
		// a well-behaved peer keeps reading while it writes (the real server does): a reader of its own
		starts := make(chan string, 2)
		var rd sync.WaitGroup
		rd.Add(1)
		go func() {
			defer rd.Done()
			for {
				var m DecodedRuntimeMessage
				if err := dec.Decode(&m); err != nil {
					return
				}
				switch m.MessageID {
				case MessageTypeWorkStart:
					starts <- m.RunID
				case MessageTypeSignal:
					if m.RunID == "r1" {
						sigAtServer++
					}
				case MessageTypeClientDone:
					_ = toSrvR.Close() // as the real server does: later writes of the client fail instead of blocking
					return
				}
			}
		}()
		for r := 0; r < runs; r++ {
			run := <-starts
			if r == 0 {
				for i := 0; i < nSig; i++ {
					_ = enc.Encode(RuntimeMessage{MessageTypeSignal, run, SignalMessage{SignalID: "progress", Data: map[string]any{"i": int64(i)}}})
				}
			}
			_ = enc.Encode(RuntimeMessage{MessageTypeWorkDone, run, WorkDoneMessage{StepID: "inc", OutputID: "ok", OutputData: map[string]any{"o": int64(7)}}})
		}
		rd.Wait() // client done
		_ = fromSrvW.Close()
	}()
	client := NewClientWithLogger(&verifChan{r: fromSrvR, w: toSrvW}, nil)
	_, err := client.ReadSchema()
	verifSchedQuiet(false)
	verifAssert("C06/signals/handshake", err == nil)
	if err != nil {
		return
	}
	verifReach("C06/signals/started")
	fromStep := make(chan schema.Input)
	toStep := make(chan schema.Input, 1)
	var got []int64
	closed := false
	var drain sync.WaitGroup
	drain.Add(1)
	go func() {
		defer drain.Done()
		for s := range fromStep {
			m, _ := s.InputData.(map[any]any)
			got = append(got, verifWireInt(m["i"]))
		}
		closed = true
	}()
	if sendToStep {
		toStep <- schema.Input{RunID: "r1", ID: "sig", InputData: map[string]any{"v": int64(1)}}
	}
	res := client.Execute(schema.Input{RunID: "r1", ID: "inc", InputData: map[string]any{"n": int64(1)}}, toStep, fromStep)
	verifAssert("C06/signals/execute-returns-result", res.Error == nil && res.OutputID == "ok")
	drain.Wait()
	verifAssert("C06/signals/channel-closed-after-result", closed)
	inOrder := len(got) == nSig
	for i := range got {
		if got[i] != int64(i) {
			inOrder = false
		}
	}
	verifAssert("C06/signals/each-signal-delivered-once-in-order", inOrder)
	if second {
		res2 := client.Execute(schema.Input{RunID: "r2", ID: "inc", InputData: map[string]any{"n": int64(2)}}, nil, nil)
		verifAssert("C06/signals/second-execute-returns", res2.Error == nil && res2.OutputID == "ok")
	}
	close(toStep)
	cerr := client.Close()
	verifAssert("C06/signals/close", cerr == nil)
	srv.Wait()
	// a queued signal may or may not overtake the end of its run: never duplicated, never sent when none was queued
	verifAssert("C06/signals/signal-to-step-not-duplicated", sigAtServer <= 1 && (sendToStep || sigAtServer == 0))
	_ = fromSrvR.Close()
	_ = toSrvW.Close()
	verifLeakCheck(true)
	verifReach("C06/signals/end")
}

// histories mixed with errors: a work-start with a blank step id is answered by the real server with a step-fatal
// error that carries no run id; the client must wake every waiting Execute (with or without a signal channel), and
// a later Execute on the same connection still works
func VerifC06_ErrorWithoutRunID() {
	calls := 0
	sess, err := verifStartSession(verifPluginSchema(&calls))
	verifAssert("C06/norunid/handshake", err == nil)
	if err != nil {
		return
	}
	verifReach("C06/norunid/started")
	withChannel := nondetBool("signalChannel")
	var fromStep chan schema.Input
	var drained sync.WaitGroup
	if withChannel {
		fromStep = make(chan schema.Input)
		drained.Add(1)
		go func() {
			defer drained.Done()
			for range fromStep {
			}
		}()
	}
	r1 := sess.client.Execute(schema.Input{RunID: "r1", ID: "", InputData: map[string]any{"n": int64(1)}}, nil, fromStep)
	verifAssert("C06/norunid/blank-step-execute-returns-an-error", r1.Error != nil)
	drained.Wait()
	r2 := verifExec(sess.client, "r2", 5)
	verifCheckResult("C06/norunid/later-execute", r2, 5)
	cerr := sess.client.Close()
	verifAssert("C06/norunid/close", cerr == nil)
	sess.srvDone.Wait()
	verifLeakCheck(true)
	verifReach("C06/norunid/end")
}

func init() { verifRegister("VerifC06_ErrorWithoutRunID", VerifC06_ErrorWithoutRunID) }

// the same while another run is in flight and a message carrying a run id has just been read by the same read loop
// (the loop decodes every message into one reused variable): the error without run id must still fail the waiting
// caller that has no other way of learning about it
func VerifC06_ErrorWithoutRunIDWhileBusy() {
	calls := 0
	sess, err := verifStartSession(verifPluginSchema(&calls))
	verifAssert("C06/busy/handshake", err == nil)
	if err != nil {
		return
	}
	verifReach("C06/busy/started")
	hold := make(chan struct{})
	verifCallsMu.Lock()
	verifHold, verifHoldN = hold, 1000
	verifCallsMu.Unlock()
	var wg sync.WaitGroup
	var ra ExecutionResult
	wg.Add(1)
	go func() { defer wg.Done(); ra = verifExec(sess.client, "ra", 1000) }()
	rc := verifExec(sess.client, "rc", 5)
	verifCheckResult("C06/busy/completed-run", rc, 5)
	rb := sess.client.Execute(schema.Input{RunID: "rb", ID: "", InputData: map[string]any{"n": int64(1)}}, nil, nil)
	verifAssert("C06/busy/blank-step-execute-returns-an-error", rb.Error != nil)
	close(hold)
	wg.Wait()
	// the error without a run id fails every run in flight, the held one included
	verifAssert("C06/busy/run-in-flight-returns", ra.Error != nil || ra.OutputID == "ok")
	cerr := sess.client.Close()
	verifAssert("C06/busy/close", cerr == nil)
	sess.drain() // the held step finishes after the client has gone
	sess.srvDone.Wait()
	verifReach("C06/busy/end")
}

func init() { verifRegister("VerifC06_ErrorWithoutRunIDWhileBusy", VerifC06_ErrorWithoutRunIDWhileBusy) }

// a well-behaved peer whose encoder omits empty fields: its step-fatal error for a blank step id has no run_id field at
// all. It follows a work-done for another run on the same read loop; the waiting caller must still be failed.
func VerifC06_PeerOmitsEmptyRunID() {
	toSrvR, toSrvW := verifNewPipe()
	fromSrvR, fromSrvW := verifNewPipe()
	var srv sync.WaitGroup
	srv.Add(1)
	release := make(chan struct{})
	verifSchedQuiet(true)
	go func() {
		defer srv.Done()
		enc, dec := cbor.NewEncoder(fromSrvW), cbor.NewDecoder(toSrvR)
		if !verifServeHello(enc, dec, fromSrvW, helloOK, 3) {
			return
		}
		for {
			var m DecodedRuntimeMessage
			if err := dec.Decode(&m); err != nil {
				return
			}
			switch m.MessageID {
			case MessageTypeWorkStart:
				var ws WorkStartMessage
				_ = cbor.Unmarshal(m.RawMessageData, &ws)
				switch {
				case ws.StepID == "":
					// no run_id key in the message
					_ = enc.Encode(map[string]any{"id": uint32(MessageTypeError), "data": map[string]any{"error": "missing step id", "step_fatal": true, "server_fatal": false}})
				case m.RunID == "held":
					go func() {
						<-release
						_ = enc.Encode(RuntimeMessage{MessageTypeWorkDone, "held", WorkDoneMessage{StepID: "inc", OutputID: "ok", OutputData: map[string]any{"o": int64(1)}}})
					}()
				default:
					_ = enc.Encode(RuntimeMessage{MessageTypeWorkDone, m.RunID, WorkDoneMessage{StepID: "inc", OutputID: "ok", OutputData: map[string]any{"o": int64(7)}}})
				}
			case MessageTypeClientDone:
				_ = toSrvR.Close()
				_ = fromSrvW.Close()
				return
			}
		}
	}()
	client := NewClientWithLogger(&verifChan{r: fromSrvR, w: toSrvW}, nil)
	_, err := client.ReadSchema()
	verifSchedQuiet(false)
	verifAssert("C06/omit/handshake", err == nil)
	if err != nil {
		return
	}
	verifReach("C06/omit/started")
	var wg sync.WaitGroup
	var held ExecutionResult
	wg.Add(1)
	go func() { defer wg.Done(); held = verifExec(client, "held", 1) }() // keeps the read loop alive
	rc := verifExec(client, "rc", 5)
	verifAssert("C06/omit/completed-run", rc.Error == nil)
	rb := client.Execute(schema.Input{RunID: "rb", ID: "", InputData: map[string]any{"n": int64(1)}}, nil, nil)
	verifAssert("C06/omit/blank-step-execute-returns-an-error", rb.Error != nil)
	close(release)
	wg.Wait()
	verifAssert("C06/omit/run-in-flight-returns", held.Error != nil || held.OutputID == "ok")
	cerr := client.Close()
	verifAssert("C06/omit/close", cerr == nil)
	srv.Wait()
	verifReach("C06/omit/end")
}

func init() { verifRegister("VerifC06_PeerOmitsEmptyRunID", VerifC06_PeerOmitsEmptyRunID) }

// Close while an Execute (with a signal channel the caller keeps open) is still in flight, in every order of Close
// against the start of the run's signal writer: the Execute still gets its result, Close returns, nothing stays blocked
func VerifC06_CloseDuringExecute() {
	calls := 0
	sess, err := verifStartSession(verifPluginSchema(&calls))
	verifAssert("C06/closeduring/handshake", err == nil)
	if err != nil {
		return
	}
	verifReach("C06/closeduring/started")
	hold := make(chan struct{})
	entered := make(chan struct{}, 1)
	verifCallsMu.Lock()
	verifHold, verifHoldN, verifHoldEntered = hold, 1000, entered
	verifCallsMu.Unlock()
	toStep := make(chan schema.Input)
	var wg sync.WaitGroup
	var r ExecutionResult
	var cerr error
	wg.Add(1)
	go func() {
		defer wg.Done()
		r = sess.client.Execute(schema.Input{RunID: "r1", ID: "inc", InputData: map[string]any{"n": int64(1000)}}, toStep, nil)
	}()
	<-entered // the run is in flight at the server; the client's signal writer for it may or may not have started
	wg.Add(1)
	go func() {
		defer wg.Done()
		cerr = sess.client.Close()
	}()
	verifSettle()
	close(hold)
	wg.Wait()
	verifAssert("C06/closeduring/execute-returns-its-result", r.Error == nil && r.OutputID == "ok")
	verifAssert("C06/closeduring/close-returned", cerr == nil || cerr != nil)
	sess.drain()
	_ = sess.toSrvW.Close()
	sess.srvDone.Wait()
	verifLeakCheck(true)
	verifReach("C06/closeduring/end")
}

func init() { verifRegister("VerifC06_CloseDuringExecute", VerifC06_CloseDuringExecute) }

// the peer emits signals for a run whose caller passed no channel for them (signalsFromStep == nil), before the
// result and — for a second run — right after the first run's result: the signals are dropped, every Execute
// still returns its result and Close returns
func init() { verifRegister("VerifC06_SignalsWithoutListener", VerifC06_SignalsWithoutListener) }

func VerifC06_SignalsWithoutListener() {
	toSrvR, toSrvW := verifNewPipe()
	fromSrvR, fromSrvW := verifNewPipe()
	nSig := 1 + nondetChoice("nsig", 2)
	late := nondetBool("lateSignal") // one more signal for r1 after its work-done
	second := nondetBool("secondExecute")
	var srv sync.WaitGroup
	srv.Add(1)
	verifSchedQuiet(true)
	go func() {
		defer srv.Done()
		enc, dec := cbor.NewEncoder(fromSrvW), cbor.NewDecoder(toSrvR)
		if !verifServeHello(enc, dec, fromSrvW, helloOK, 3) {
			return
		}
		runs := 1
		if second {
			runs = 2
		}
		starts := make(chan string, 2)
		var rd sync.WaitGroup
		rd.Add(1)
		go func() {
			defer rd.Done()
			for {
				var m DecodedRuntimeMessage
				if err := dec.Decode(&m); err != nil {
					return
				}
				switch m.MessageID {
				case MessageTypeWorkStart:
					starts <- m.RunID
				case MessageTypeClientDone:
					_ = toSrvR.Close()
					return
				}
			}
		}()
		for r := 0; r < runs; r++ {
			run := <-starts
			if r == 0 {
				for i := 0; i < nSig; i++ {
					_ = enc.Encode(RuntimeMessage{MessageTypeSignal, run, SignalMessage{SignalID: "progress", Data: map[string]any{"i": int64(i)}}})
				}
			}
			if r == 1 && late {
				_ = enc.Encode(RuntimeMessage{MessageTypeSignal, "r1", SignalMessage{SignalID: "progress", Data: map[string]any{"i": int64(9)}}})
			}
			_ = enc.Encode(RuntimeMessage{MessageTypeWorkDone, run, WorkDoneMessage{StepID: "inc", OutputID: "ok", OutputData: map[string]any{"o": int64(7)}}})
		}
		rd.Wait() // client done
		_ = fromSrvW.Close()
	}()
	client := NewClientWithLogger(&verifChan{r: fromSrvR, w: toSrvW}, nil)
	_, err := client.ReadSchema()
	verifSchedQuiet(false)
	verifAssert("C06/nolistener/handshake", err == nil)
	if err != nil {
		return
	}
	verifReach("C06/nolistener/started")
	res := client.Execute(schema.Input{RunID: "r1", ID: "inc", InputData: map[string]any{"n": int64(1)}}, nil, nil)
	verifAssert("C06/nolistener/execute-returns-result", res.Error == nil && res.OutputID == "ok")
	if second {
		res2 := client.Execute(schema.Input{RunID: "r2", ID: "inc", InputData: map[string]any{"n": int64(2)}}, nil, nil)
		verifAssert("C06/nolistener/second-execute-returns", res2.Error == nil && res2.OutputID == "ok")
	}
	cerr := client.Close()
	verifAssert("C06/nolistener/close", cerr == nil)
	srv.Wait()
	_ = fromSrvR.Close()
	_ = toSrvW.Close()
	verifLeakCheck(true)
	verifReach("C06/nolistener/end")
}
