package atp

import (
	"io"
	"sync"

	"github.com/fxamacker/cbor/v2"
	"go.flow.arcalot.io/pluginsdk/schema"
)

// C08 — a broken or garbled server stream fails client calls; it never hangs them.
// The harness is the server: it performs (or breaks) the handshake and answers each work-start per a script.

func init() {
	verifRegister("VerifC08_Handshake", VerifC08_Handshake)
	verifRegister("VerifC08_BrokenStream", VerifC08_BrokenStream)
	verifRegister("VerifC08_CloseAfterBreak", VerifC08_CloseAfterBreak)
}

const (
	helloOK = iota
	helloEOF
	helloGarbage
	helloBadVersion
	helloBadSchema
	helloCount
)

const (
	replyDone = iota
	replyGarbage
	replyEOF
	replyReadError
	replyOtherRun
	replyStepFatal
	replyServerFatal
	replyGarbledError // an error message whose payload is well-formed CBOR of the wrong shape, then the stream ends
	replyGarbledDone  // the same for a work-done message
	replyHalfDone     // a work-done whose first fields decode and a later one does not (a corrupted byte late in the message)
	replyGarbledDoneOpen // a garbled work-done, and the plugin keeps its output open afterwards (as a real one does
	// while it waits for client-done): only the message itself can fail the waiting call
	replyHalfDoneOpen
	replyCount
)

type verifFakeServer struct {
	mu        sync.Mutex
	intact    map[string]bool // run id -> a valid work-done for it was sent intact
	done      sync.WaitGroup
	fromSrvR  interface{ Close() error }
}

func verifServeHello(enc *cbor.Encoder, dec *cbor.Decoder, fromSrvW io.WriteCloser, fault int, version int64) bool {
	var start any
	if err := dec.Decode(&start); err != nil {
		return false
	}
	switch fault {
	case helloEOF:
		_ = fromSrvW.Close()
		return false
	case helloGarbage:
		verifPipeGarbage(fromSrvW)
		return false
	case helloBadSchema:
		_ = enc.Encode(HelloMessage{Version: version, Schema: map[string]any{"steps": "not a map"}})
		return false
	}
	calls := 0
	desc, err := verifPluginSchema(&calls).SelfSerialize()
	if err != nil {
		return false
	}
	_ = enc.Encode(HelloMessage{Version: version, Schema: desc})
	return fault == helloOK
}

// ReadSchema returns an error for every fault and every unsupported version
func VerifC08_Handshake() {
	fault := nondetChoice("fault", helloCount)
	version := nondetInt64("version")
	supported := vOr(version == 1, version == 3)
	if fault == helloBadVersion {
		verifAssume(vNot(supported))
	} else if fault == helloOK {
		verifAssume(supported)
	}
	toSrvR, toSrvW := verifNewPipe()
	fromSrvR, fromSrvW := verifNewPipe()
	var wg sync.WaitGroup
	wg.Add(1)
	go func() {
		defer wg.Done()
		verifServeHello(cbor.NewEncoder(fromSrvW), cbor.NewDecoder(toSrvR), fromSrvW, fault, version)
	}()
	client := NewClientWithLogger(&verifChan{r: fromSrvR, w: toSrvW}, nil)
	s, err := client.ReadSchema()
	verifAssert("C08/handshake/error-iff-fault", (err == nil) == (fault == helloOK))
	if err == nil {
		verifAssert("C08/handshake/schema-usable", s != nil && len(s.Steps()) == 1)
	}
	_ = fromSrvR.Close()
	_ = toSrvW.Close()
	wg.Wait()
	verifObserve("ok", err == nil)
	verifReach("C08/handshake/end")
}

func VerifC08_BrokenStream() {
	toSrvR, toSrvW := verifNewPipe()
	fromSrvR, fromSrvW := verifNewPipe()
	fs := &verifFakeServer{intact: map[string]bool{}}
	nExec := 1 + nondetChoice("nexec", 2)
	overlap := nExec == 2 && nondetBool("overlap")
	replies := [2]int{nondetChoice("reply0", replyCount), nondetChoice("reply1", replyCount)}
	fs.done.Add(1)
	verifSchedQuiet(true)
	go func() {
		defer fs.done.Done()
		enc, dec := cbor.NewEncoder(fromSrvW), cbor.NewDecoder(toSrvR)
		if !verifServeHello(enc, dec, fromSrvW, helloOK, 3) {
			return
		}
		broken := false
		for i := 0; i < nExec && !broken; i++ {
			var m DecodedRuntimeMessage
			if err := dec.Decode(&m); err != nil {
				return
			}
			run := m.RunID
			switch replies[i] {
			case replyDone:
				fs.mu.Lock()
				fs.intact[run] = true
				fs.mu.Unlock()
				_ = enc.Encode(RuntimeMessage{MessageTypeWorkDone, run, WorkDoneMessage{StepID: "inc", OutputID: "ok", OutputData: map[string]any{"o": int64(7)}}})
			case replyGarbage:
				verifPipeGarbage(fromSrvW)
				broken = true
			case replyEOF:
				_ = fromSrvW.Close()
				broken = true
			case replyReadError:
				verifPipeFailReads(fromSrvR)
				broken = true
			case replyOtherRun:
				_ = enc.Encode(RuntimeMessage{MessageTypeWorkDone, "someone-else", WorkDoneMessage{StepID: "inc", OutputID: "ok", OutputData: map[string]any{"o": int64(9)}}})
				_ = fromSrvW.Close()
				broken = true
			case replyStepFatal:
				_ = enc.Encode(RuntimeMessage{MessageTypeError, run, ErrorMessage{Error: "boom", StepFatal: true}})
			case replyGarbledError:
				_ = enc.Encode(RuntimeMessage{MessageTypeError, run, map[string]any{"error": "boom", "step_fatal": int64(10), "server_fatal": "x"}})
				_ = fromSrvW.Close()
				broken = true
			case replyGarbledDone:
				_ = enc.Encode(RuntimeMessage{MessageTypeWorkDone, run, "not a work done message"})
				_ = fromSrvW.Close()
				broken = true
			case replyHalfDone:
				_ = enc.Encode(RuntimeMessage{MessageTypeWorkDone, run, map[string]any{"step_id": "inc", "output_id": "ok", "output_data": map[string]any{"o": int64(7)}, "debug_logs": int64(5)}})
				_ = fromSrvW.Close()
				broken = true
			case replyGarbledDoneOpen:
				_ = enc.Encode(RuntimeMessage{MessageTypeWorkDone, run, "not a work done message"})
			case replyHalfDoneOpen:
				_ = enc.Encode(RuntimeMessage{MessageTypeWorkDone, run, map[string]any{"step_id": "inc", "output_id": int64(5), "output_data": map[string]any{"o": int64(7)}}})
			case replyServerFatal:
				_ = enc.Encode(RuntimeMessage{MessageTypeError, run, ErrorMessage{Error: "boom", StepFatal: true, ServerFatal: true}})
				_ = fromSrvW.Close()
				broken = true
			}
		}
		// drain whatever the client still sends (client-done), then go away
		var rest DecodedRuntimeMessage
		for dec.Decode(&rest) == nil {
		}
		_ = fromSrvW.Close()
	}()
	client := NewClientWithLogger(&verifChan{r: fromSrvR, w: toSrvW}, nil)
	_, err := client.ReadSchema()
	verifSchedQuiet(false)
	verifAssert("C08/stream/handshake", err == nil)
	if err != nil {
		return
	}
	verifReach("C08/stream/started")
	results := make([]ExecutionResult, nExec)
	runs := [2]string{"r1", "r2"}
	exec := func(i int) {
		results[i] = client.Execute(schema.Input{RunID: runs[i], ID: "inc", InputData: map[string]any{"n": int64(i)}}, nil, nil)
	}
	if overlap {
		var wg sync.WaitGroup
		wg.Add(2)
		go func() { defer wg.Done(); exec(0) }()
		go func() { defer wg.Done(); exec(1) }()
		wg.Wait()
	} else {
		for i := 0; i < nExec; i++ {
			exec(i)
		}
	}
	for i := 0; i < nExec; i++ {
		fs.mu.Lock()
		intact := fs.intact[runs[i]]
		fs.mu.Unlock()
		verifAssert("C08/stream/success-only-if-work-done-arrived-intact", vImplies(results[i].Error == nil, intact))
		m, ok := results[i].OutputData.(map[any]any)
		verifAssert("C08/stream/result-not-fabricated", results[i].Error != nil || (ok && results[i].OutputID == "ok" && verifWireInt(m["o"]) == 7))
	}
	cerr := client.Close()
	_ = cerr
	_ = toSrvW.Close()
	fs.done.Wait()
	verifReach("C08/stream/end")
}

// the server goes away completely (its output ends and the client's writes fail) while a run was started with a
// signal channel the caller never closes: Execute returns, Close returns (an error is fine), nothing panics or hangs
func VerifC08_CloseAfterBreak() {
	toSrvR, toSrvW := verifNewPipe()
	fromSrvR, fromSrvW := verifNewPipe()
	reply := nondetChoice("reply", 3) // 0: intact work-done first, 1: nothing, 2: garbage
	withSignals := nondetBool("signalChannel")
	var srv sync.WaitGroup
	srv.Add(1)
	verifSchedQuiet(true)
	go func() {
		defer srv.Done()
		enc, dec := cbor.NewEncoder(fromSrvW), cbor.NewDecoder(toSrvR)
		if !verifServeHello(enc, dec, fromSrvW, helloOK, 3) {
			return
		}
		var m DecodedRuntimeMessage
		if err := dec.Decode(&m); err != nil {
			return
		}
		switch reply {
		case 0:
			_ = enc.Encode(RuntimeMessage{MessageTypeWorkDone, m.RunID, WorkDoneMessage{StepID: "inc", OutputID: "ok", OutputData: map[string]any{"o": int64(7)}}})
		case 2:
			verifPipeGarbage(fromSrvW)
		}
		// the plugin process dies: both directions are gone
		_ = toSrvR.Close()
		_ = fromSrvW.Close()
	}()
	client := NewClientWithLogger(&verifChan{r: fromSrvR, w: toSrvW}, nil)
	_, err := client.ReadSchema()
	verifSchedQuiet(false)
	verifAssert("C08/close/handshake", err == nil)
	if err != nil {
		return
	}
	verifReach("C08/close/started")
	if verifTier() > 0 {
		verifSchedBound(2) // thorough: every pair of preemptions
	}
	var toStep chan schema.Input
	if withSignals {
		toStep = make(chan schema.Input) // never closed by the caller (closing is only recommended)
	}
	var res ExecutionResult
	if withSignals {
		res = client.Execute(schema.Input{RunID: "r1", ID: "inc", InputData: map[string]any{"n": int64(1)}}, toStep, nil)
	} else {
		res = client.Execute(schema.Input{RunID: "r1", ID: "inc", InputData: map[string]any{"n": int64(1)}}, nil, nil)
	}
	verifAssert("C08/close/success-only-if-work-done-arrived", vImplies(res.Error == nil, reply == 0))
	srv.Wait()
	cerr := client.Close()
	verifObserve("closeFailed", cerr != nil)
	verifLeakCheck(true)
	verifReach("C08/close/end")
}
