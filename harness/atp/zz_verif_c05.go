package atp

import (
	"context"
	"sync"

	"go.flow.arcalot.io/pluginsdk/schema"
)

// C05 — ATP is transparent: each Execute returns its own step's in-process result.

func init() {
	verifRegister("VerifC05_Serial", VerifC05_Serial)
}

func verifPluginSchema(calls *int) *schema.CallableSchema {
	intProp := func() *schema.PropertySchema {
		return schema.NewPropertySchema(schema.NewIntSchema(nil, nil, nil), nil, true, nil, nil, nil, nil, nil)
	}
	min := int64(0)
	return schema.NewCallableSchema(
		schema.NewCallableStep[map[string]any](
			"inc",
			schema.NewScopeSchema(schema.NewObjectSchema("In", map[string]*schema.PropertySchema{
				"n": schema.NewPropertySchema(schema.NewIntSchema(&min, nil, nil), nil, true, nil, nil, nil, nil, nil),
			})),
			map[string]*schema.StepOutputSchema{
				"ok": schema.NewStepOutputSchema(schema.NewScopeSchema(schema.NewObjectSchema("Out", map[string]*schema.PropertySchema{
					"o": intProp(),
				})), nil, false),
			},
			nil,
			func(ctx context.Context, in map[string]any) (string, any) {
				*calls = *calls + 1
				return "ok", map[string]any{"o": in["n"].(int64) + 1}
			},
		),
	)
}

// verifWireInt reads an integer as CBOR delivers it (uint64 when non-negative, int64 otherwise).
func verifWireInt(v any) int64 {
	switch x := v.(type) {
	case uint64:
		return int64(x)
	case int64:
		return x
	}
	return -1 << 62
}

type verifSession struct {
	client  Client
	srvErrs []*ServerError
	srvDone sync.WaitGroup
	toSrvW  interface{ Close() error }
}

// verifStartSession wires a client to the real server over two pipes and performs the handshake.
func verifStartSession(plugin *schema.CallableSchema) (*verifSession, error) {
	// the handshake runs under one schedule; exploration starts when the session is up
	verifSchedQuiet(true)
	defer verifSchedQuiet(false)
	toSrvR, toSrvW := verifNewPipe()
	fromSrvR, fromSrvW := verifNewPipe()
	s := &verifSession{toSrvW: toSrvW}
	s.srvDone.Add(1)
	go func() {
		defer s.srvDone.Done()
		s.srvErrs = RunATPServer(context.Background(), toSrvR, fromSrvW, plugin)
		_ = fromSrvW.Close()
	}()
	s.client = NewClientWithLogger(&verifChan{r: fromSrvR, w: toSrvW}, nil)
	_, err := s.client.ReadSchema()
	return s, err
}

func VerifC05_Serial() {
	calls := 0
	sess, err := verifStartSession(verifPluginSchema(&calls))
	verifAssert("C05/serial/handshake", err == nil)
	if err != nil {
		return
	}
	n := nondetInt64("n")
	res := sess.client.Execute(schema.Input{RunID: "r1", ID: "inc", InputData: map[string]any{"n": n}}, nil, nil)
	valid := n >= 0
	verifAssert("C05/serial/error-iff-input-rejected", vIff(res.Error == nil, valid))
	if res.Error == nil {
		verifAssert("C05/serial/output-id", res.OutputID == "ok")
		m, ok := res.OutputData.(map[any]any)
		verifAssert("C05/serial/output-data", ok && verifWireInt(m["o"]) == n+1)
	}
	cerr := sess.client.Close()
	verifAssert("C05/serial/close", cerr == nil)
	sess.srvDone.Wait()
	verifObserve("ok", res.Error == nil)
	verifReach("C05/serial/end")
}
