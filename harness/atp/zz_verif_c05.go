package atp

import (
	"io"
	"context"
	"sync"

	"github.com/fxamacker/cbor/v2"
	"go.flow.arcalot.io/pluginsdk/schema"
)

// C05 — ATP is transparent: each Execute returns its own step's in-process result.

func init() {
	verifRegister("VerifC05_Serial", VerifC05_Serial)
	verifRegister("VerifC05_Concurrent", VerifC05_Concurrent)
	verifRegister("VerifC05_FinishTogether", VerifC05_FinishTogether)
	verifRegister("VerifC05_Signals", VerifC05_Signals)
	verifRegister("VerifC05_V1", VerifC05_V1)
}

var verifCallsMu sync.Mutex
var verifStepBarrier *sync.WaitGroup
var verifHold chan struct{}
var verifHoldEntered chan struct{}
var verifHoldN int64

func verifPluginSchema(calls *int) *schema.CallableSchema {
	verifStepBarrier = nil
	verifHold = nil
	verifHoldEntered = nil
	intProp := func() *schema.PropertySchema {
		return schema.NewPropertySchema(schema.NewIntSchema(nil, nil, nil), nil, true, nil, nil, nil, nil, nil)
	}
	min := int64(0)
	return schema.NewCallableSchema(
		schema.NewCallableStep[map[string]any](
			"inc",
			schema.NewScopeSchema(schema.NewObjectSchema("In", map[string]*schema.PropertySchema{
				"n": schema.NewPropertySchema(schema.NewIntSchema(&min, nil, nil), nil, true, nil, nil, nil, nil, nil),
			})),
			map[string]*schema.StepOutputSchema{
				"ok": schema.NewStepOutputSchema(schema.NewScopeSchema(schema.NewObjectSchema("Out", map[string]*schema.PropertySchema{
					"o": intProp(),
				})), nil, false),
			},
			nil,
			func(ctx context.Context, in map[string]any) (string, any) {
				verifCallsMu.Lock()
				*calls = *calls + 1
				b := verifStepBarrier
				verifCallsMu.Unlock()
				if b != nil {
					// the steps of this session finish together
					b.Done()
					b.Wait()
				}
				if h := verifHold; h != nil && in["n"].(int64) == verifHoldN {
					if e := verifHoldEntered; e != nil {
						e <- struct{}{} // tells the harness that the run is in flight
					}
					<-h // this run stays in flight until the harness releases it
				}
				return "ok", map[string]any{"o": in["n"].(int64) + 1}
			},
		),
	)
}

// verifWireInt reads an integer as CBOR delivers it (uint64 when non-negative, int64 otherwise).
func verifWireInt(v any) int64 {
	switch x := v.(type) {
	case uint64:
		return int64(x)
	case int64:
		return x
	}
	return -1 << 62
}

type verifSession struct {
	client  Client
	srvErrs []*ServerError
	srvDone sync.WaitGroup
	toSrvW  interface{ Close() error }
	fromSrv io.ReadCloser
}

// drain reads whatever the server still writes after the client has stopped listening (a step that finishes late):
// an operating-system pipe would buffer it, the unbuffered pipes of the harness need a reader
func (s *verifSession) drain() {
	go func() {
		dec := cbor.NewDecoder(s.fromSrv)
		for {
			var m any
			if dec.Decode(&m) != nil {
				return
			}
		}
	}()
}

// verifStartSession wires a client to the real server over two pipes and performs the handshake.
func verifStartSession(plugin *schema.CallableSchema) (*verifSession, error) {
	// the handshake runs under one schedule; exploration starts when the session is up
	verifSchedQuiet(true)
	defer verifSchedQuiet(false)
	toSrvR, toSrvW := verifNewPipe()
	fromSrvR, fromSrvW := verifNewPipe()
	s := &verifSession{toSrvW: toSrvW, fromSrv: fromSrvR}
	s.srvDone.Add(1)
	go func() {
		defer s.srvDone.Done()
		s.srvErrs = RunATPServer(context.Background(), toSrvR, fromSrvW, plugin)
		_ = fromSrvW.Close()
	}()
	s.client = NewClientWithLogger(&verifChan{r: fromSrvR, w: toSrvW}, nil)
	_, err := s.client.ReadSchema()
	return s, err
}

func VerifC05_Serial() {
	calls := 0
	sess, err := verifStartSession(verifPluginSchema(&calls))
	verifAssert("C05/serial/handshake", err == nil)
	if err != nil {
		return
	}
	n := nondetInt64("n")
	res := sess.client.Execute(schema.Input{RunID: "r1", ID: "inc", InputData: map[string]any{"n": n}}, nil, nil)
	valid := n >= 0
	verifAssert("C05/serial/error-iff-input-rejected", vIff(res.Error == nil, valid))
	if res.Error == nil {
		verifAssert("C05/serial/output-id", res.OutputID == "ok")
		m, ok := res.OutputData.(map[any]any)
		verifAssert("C05/serial/output-data", ok && verifWireInt(m["o"]) == n+1)
	}
	cerr := sess.client.Close()
	verifAssert("C05/serial/close", cerr == nil)
	sess.srvDone.Wait()
	verifObserve("ok", res.Error == nil)
	verifReach("C05/serial/end")
}

// two executes at once, symbolic inputs: each call gets its own step's result, never the other's
func VerifC05_Concurrent() {
	calls := 0
	sess, err := verifStartSession(verifPluginSchema(&calls))
	verifAssert("C05/conc/handshake", err == nil)
	if err != nil {
		return
	}
	verifReach("C05/conc/started")
	verifEncodeLockBegin()
	// the client's own bookkeeping (result entries, signal channels, flags) is shared between the callers and the
	// read loop: every location written from here on must have a common lock over all its accesses
	verifSharedBegin(sess.client)
	n1, n2 := nondetInt64("n1"), nondetInt64("n2")
	var wg sync.WaitGroup
	var r1, r2 ExecutionResult
	wg.Add(2)
	go func() {
		defer wg.Done()
		r1 = sess.client.Execute(schema.Input{RunID: "r1", ID: "inc", InputData: map[string]any{"n": n1}}, nil, nil)
	}()
	go func() {
		defer wg.Done()
		r2 = sess.client.Execute(schema.Input{RunID: "r2", ID: "inc", InputData: map[string]any{"n": n2}}, nil, nil)
	}()
	wg.Wait()
	check := func(tag string, res ExecutionResult, n int64) {
		verifAssert(tag+"/error-iff-input-rejected", vIff(res.Error == nil, n >= 0))
		m, ok := res.OutputData.(map[any]any)
		verifAssert(tag+"/own-result", res.Error != nil || (ok && res.OutputID == "ok" && verifWireInt(m["o"]) == n+1))
	}
	check("C05/conc/first", r1, n1)
	check("C05/conc/second", r2, n2)
	cerr := sess.client.Close()
	verifAssert("C05/conc/close", cerr == nil)
	sess.srvDone.Wait()
	verifEncodeLockCheck("C05/conc/writes-serialised")
	verifSharedCheck("C05/conc/client-state-accessed-under-its-mutex")
	verifReach("C05/conc/end")
}

// two accepted steps that finish at the same moment: their work-done messages are written by two goroutines, and
// every write to the shared stream must be ordered by a common mutex (engine: lockset over the encoders; natively a
// probe in the stream that the race detector watches)
func VerifC05_FinishTogether() {
	calls := 0
	sess, err := verifStartSession(verifPluginSchema(&calls))
	verifAssert("C05/together/handshake", err == nil)
	if err != nil {
		return
	}
	verifReach("C05/together/started")
	var barrier sync.WaitGroup
	barrier.Add(2)
	verifStepBarrier = &barrier
	verifEncodeLockBegin()
	n1, n2 := nondetInt64("n1"), nondetInt64("n2")
	verifAssume(vAnd(n1 >= 0, n2 >= 0))
	var wg sync.WaitGroup
	var r1, r2 ExecutionResult
	wg.Add(2)
	go func() {
		defer wg.Done()
		r1 = sess.client.Execute(schema.Input{RunID: "r1", ID: "inc", InputData: map[string]any{"n": n1}}, nil, nil)
	}()
	go func() {
		defer wg.Done()
		r2 = sess.client.Execute(schema.Input{RunID: "r2", ID: "inc", InputData: map[string]any{"n": n2}}, nil, nil)
	}()
	wg.Wait()
	m1, ok1 := r1.OutputData.(map[any]any)
	m2, ok2 := r2.OutputData.(map[any]any)
	verifAssert("C05/together/first-own-result", r1.Error == nil && ok1 && verifWireInt(m1["o"]) == n1+1)
	verifAssert("C05/together/second-own-result", r2.Error == nil && ok2 && verifWireInt(m2["o"]) == n2+1)
	cerr := sess.client.Close()
	verifAssert("C05/together/close", cerr == nil)
	sess.srvDone.Wait()
	verifEncodeLockCheck("C05/together/writes-serialised")
	verifReach("C05/together/end")
}

func verifSignalPlugin(got *[]int64) *schema.CallableSchema {
	intProp := func() *schema.PropertySchema {
		return schema.NewPropertySchema(schema.NewIntSchema(nil, nil, nil), nil, true, nil, nil, nil, nil, nil)
	}
	sigScope := func(id string) *schema.ScopeSchema {
		return schema.NewScopeSchema(schema.NewObjectSchema(id, map[string]*schema.PropertySchema{"v": intProp()}))
	}
	type stepData struct{ ch chan int64 }
	return schema.NewCallableSchema(
		schema.NewCallableStepWithSignals[*stepData, map[string]any](
			"wait",
			schema.NewScopeSchema(schema.NewObjectSchema("In", map[string]*schema.PropertySchema{})),
			map[string]*schema.StepOutputSchema{
				"ok": schema.NewStepOutputSchema(schema.NewScopeSchema(schema.NewObjectSchema("Out", map[string]*schema.PropertySchema{"o": intProp()})), nil, false),
			},
			map[string]schema.CallableSignal{
				"sig": schema.NewCallableSignal[*stepData, map[string]any]("sig", sigScope("Sig"), nil,
					func(ctx context.Context, d *stepData, in map[string]any) {
						d.ch <- in["v"].(int64)
					}),
			},
			nil, nil,
			func() *stepData { return &stepData{ch: make(chan int64, 1)} },
			func(ctx context.Context, d *stepData, in map[string]any) (string, any) {
				v := <-d.ch // the step finishes when its signal arrives
				*got = append(*got, v)
				return "ok", map[string]any{"o": v}
			},
		),
	)
}

// a signal sent through the client reaches the handler of that run; the step's result comes back
func VerifC05_Signals() {
	var got []int64
	sess, err := verifStartSession(verifSignalPlugin(&got))
	verifAssert("C05/signals/handshake", err == nil)
	if err != nil {
		return
	}
	verifReach("C05/signals/started")
	if verifTier() > 0 {
		verifSchedBound(2) // thorough: every pair of preemptions
	}
	v := nondetInt64("v")
	toStep := make(chan schema.Input, 1)
	toStep <- schema.Input{RunID: "r1", ID: "sig", InputData: map[string]any{"v": v}}
	res := sess.client.Execute(schema.Input{RunID: "r1", ID: "wait", InputData: map[string]any{}}, toStep, nil)
	close(toStep)
	verifAssert("C05/signals/no-error", res.Error == nil)
	m, ok := res.OutputData.(map[any]any)
	verifAssert("C05/signals/result-carries-signal-data", res.Error != nil || (ok && verifWireInt(m["o"]) == v))
	cerr := sess.client.Close()
	verifAssert("C05/signals/close", cerr == nil)
	sess.srvDone.Wait()
	verifReach("C05/signals/end")
}

// the legacy v1 framing: one step per connection, work-start and work-done without runtime envelopes
func VerifC05_V1() {
	toSrvR, toSrvW := verifNewPipe()
	fromSrvR, fromSrvW := verifNewPipe()
	calls := 0
	plugin := verifPluginSchema(&calls)
	var wg sync.WaitGroup
	wg.Add(1)
	go func() {
		defer wg.Done()
		enc, dec := cbor.NewEncoder(fromSrvW), cbor.NewDecoder(toSrvR)
		var start any
		if dec.Decode(&start) != nil {
			return
		}
		desc, _ := plugin.SelfSerialize()
		_ = enc.Encode(HelloMessage{Version: 1, Schema: desc})
		var ws WorkStartMessage
		if dec.Decode(&ws) != nil {
			return
		}
		id, data, err := plugin.CallStep(context.Background(), "v1", ws.StepID, ws.Config)
		if err != nil {
			_ = fromSrvW.Close()
			return
		}
		_ = enc.Encode(WorkDoneMessage{StepID: ws.StepID, OutputID: id, OutputData: data})
	}()
	client := NewClientWithLogger(&verifChan{r: fromSrvR, w: toSrvW}, nil)
	_, err := client.ReadSchema()
	verifAssert("C05/v1/handshake", err == nil)
	if err != nil {
		return
	}
	n := nondetInt64("n")
	res := client.Execute(schema.Input{RunID: "only", ID: "inc", InputData: map[string]any{"n": n}}, nil, nil)
	verifAssert("C05/v1/error-iff-input-rejected", vIff(res.Error == nil, n >= 0))
	m, ok := res.OutputData.(map[any]any)
	verifAssert("C05/v1/own-result", res.Error != nil || (ok && res.OutputID == "ok" && verifWireInt(m["o"]) == n+1))
	_ = client.Close()
	_ = toSrvW.Close()
	wg.Wait()
	verifReach("C05/v1/end")
}

// two executes back to back on one client (the read loop of the first call winds down while the second call
// registers): each returns its own step's result
func init() { verifRegister("VerifC05_BackToBack", VerifC05_BackToBack) }

func VerifC05_BackToBack() {
	calls := 0
	sess, err := verifStartSession(verifPluginSchema(&calls))
	verifAssert("C05/b2b/handshake", err == nil)
	if err != nil {
		return
	}
	verifReach("C05/b2b/started")
	n1, n2 := nondetInt64("n1"), nondetInt64("n2")
	check := func(tag string, res ExecutionResult, n int64) {
		verifAssert("C05/b2b/"+tag+"/error-iff-input-rejected", vIff(res.Error == nil, n >= 0))
		if res.Error == nil {
			m, ok := res.OutputData.(map[any]any)
			verifAssert("C05/b2b/"+tag+"/own-result", res.OutputID == "ok" && ok && verifWireInt(m["o"]) == n+1)
		}
	}
	r1 := sess.client.Execute(schema.Input{RunID: "r1", ID: "inc", InputData: map[string]any{"n": n1}}, nil, nil)
	check("first", r1, n1)
	r2 := sess.client.Execute(schema.Input{RunID: "r2", ID: "inc", InputData: map[string]any{"n": n2}}, nil, nil)
	check("second", r2, n2)
	cerr := sess.client.Close()
	verifAssert("C05/b2b/close", cerr == nil)
	sess.srvDone.Wait()
	verifObserve("ok1", r1.Error == nil)
	verifObserve("ok2", r2.Error == nil)
	verifReach("C05/b2b/end")
}
