package schema

import (
	"context"
	"sort"
)

// C10 — a schema received from a plugin is rejected with an error or fully usable: every single structural
// mutation (delete / retype / rename / re-point) at every node of valid descriptions, then every operation on
// whatever is returned. The obligation is the absence of PANIC/UNWIND outcomes.

func init() {
	verifRegister("VerifC10_MutatedScope", VerifC10_MutatedScope)
	verifRegister("VerifC10_MutatedPluginSchema", VerifC10_MutatedPluginSchema)
	verifRegister("VerifC10_Garbage", VerifC10_Garbage)
}

type verifNode struct {
	parent any // map[string]any, map[any]any or []any
	key    string
	akey   any
	idx    int
}

// verifNodes lists every node of a description tree below the root, in a deterministic order.
func verifNodes(root any) []verifNode {
	var out []verifNode
	var walk func(v any)
	walk = func(v any) {
		switch x := v.(type) {
		case map[string]any:
			keys := make([]string, 0, len(x))
			for k := range x {
				keys = append(keys, k)
			}
			sort.Strings(keys)
			for _, k := range keys {
				out = append(out, verifNode{parent: x, key: k})
				walk(x[k])
			}
		case map[any]any:
			// serialized maps: keys are strings or int64
			var skeys []string
			var ikeys []int64
			for k := range x {
				switch kk := k.(type) {
				case string:
					skeys = append(skeys, kk)
				case int64:
					ikeys = append(ikeys, kk)
				}
			}
			sort.Strings(skeys)
			sort.Slice(ikeys, func(i, j int) bool { return ikeys[i] < ikeys[j] })
			for _, k := range skeys {
				out = append(out, verifNode{parent: x, akey: k})
				walk(x[k])
			}
			for _, k := range ikeys {
				out = append(out, verifNode{parent: x, akey: k})
				walk(x[k])
			}
		case []any:
			for i := range x {
				out = append(out, verifNode{parent: x, idx: i})
				walk(x[i])
			}
		}
	}
	walk(root)
	return out
}

const verifNMutOps = 11

// verifForeignNamespace reports whether a description names a namespace other than the scope's own. References into
// such a namespace stay unlinked until the receiver applies it (documented; ValidateReferences reports them), so only
// then may an accepted schema have unlinked references.
func verifForeignNamespace(v any) bool {
	switch x := v.(type) {
	case map[string]any:
		for k, e := range x {
			if k == "namespace" && e != nil && e != "" {
				return true // any non-empty value: numbers and booleans are converted to strings by the meta-schema
			}
			if verifForeignNamespace(e) {
				return true
			}
		}
	case map[any]any:
		for k, e := range x {
			if k == "namespace" && e != nil && e != "" {
				return true // any non-empty value: numbers and booleans are converted to strings by the meta-schema
			}
			if verifForeignNamespace(e) {
				return true
			}
		}
	case []any:
		for _, e := range x {
			if verifForeignNamespace(e) {
				return true
			}
		}
	}
	return false
}

func verifApplyMutation(n verifNode, op int) {
	var repl any
	switch op {
	case 1:
		repl = "zz"
	case 2:
		repl = int64(5)
	case 3:
		repl = nil
	case 4:
		repl = []any{}
	case 5:
		repl = map[string]any{}
	case 6:
		repl = true
	case 7:
		repl = "A" // re-point at an id that exists in the fixtures
	}
	switch p := n.parent.(type) {
	case map[string]any:
		switch op {
		case 9, 10:
			p[""] = p[n.key]
			delete(p, n.key)
		case 0:
			delete(p, n.key)
		case 8: // rename
			p[n.key+"x"] = p[n.key]
			delete(p, n.key)
		default:
			p[n.key] = repl
		}
	case map[any]any:
		switch op {
		case 9, 10: // re-key an integer-keyed entry (unit multipliers, int one-of members, int enum values): 0 and a negative
			v := p[n.akey]
			delete(p, n.akey)
			if _, ok := n.akey.(int64); ok {
				if op == 9 {
					p[int64(0)] = v
				} else {
					p[int64(-5)] = v
				}
			} else {
				p[""] = v
			}
		case 0:
			delete(p, n.akey)
		case 8: // rename: another key of the same kind
			v := p[n.akey]
			delete(p, n.akey)
			if ks, ok := n.akey.(string); ok {
				p[ks+"x"] = v
			} else {
				p[n.akey.(int64)+100] = v
			}
		default:
			p[n.akey] = repl
		}
	case []any:
		if op == 0 || op >= 8 {
			p[n.idx] = nil
		} else {
			p[n.idx] = repl
		}
	}
}

func verifMutationBase(k int) *ScopeSchema {
	p := func(t Type, required bool, def *string) *PropertySchema {
		return NewPropertySchema(t, nil, required, nil, nil, nil, def, nil)
	}
	switch k {
	case 0: // references, one-of, default
		mk := func(id string) *ObjectSchema {
			return NewObjectSchema(id, map[string]*PropertySchema{"v": p(NewIntSchema(nil, nil, nil), false, verifStrPtr("3"))})
		}
		return NewScopeSchema(NewObjectSchema("A", map[string]*PropertySchema{
			"o":    p(NewOneOfStringSchema[any](map[string]Object{"x": NewRefSchema("X", nil)}, "d", false), false, nil),
			"next": p(NewRefSchema("A", nil), false, nil),
		}), mk("X"))
	case 1: // pattern, units, enum, list, map
		one := int64(1)
		return NewScopeSchema(NewObjectSchema("A", map[string]*PropertySchema{
			"s": p(NewStringSchema(&one, nil, verifPatAB), false, verifStrPtr(`"a"`)),
			"i": p(NewIntSchema(nil, nil, UnitDurationSeconds), false, nil),
			"e": p(NewStringEnumSchema(map[string]*DisplayValue{"a": NewDisplayValue(nil, nil, nil)}), false, nil),
			"l": p(NewListSchema(NewMapSchema(NewIntSchema(nil, nil, nil), NewBoolSchema(), nil, nil), nil, nil), false, nil),
		}))
	}
	if k == 3 { // nested scopes under a list and under a map; a disabled property holding a reference
		innerL := NewScopeSchema(NewObjectSchema("L", map[string]*PropertySchema{"z": p(NewFloatSchema(nil, nil, nil), false, nil)}))
		innerM := NewScopeSchema(NewObjectSchema("M2", map[string]*PropertySchema{"q": p(NewBoolSchema(), false, nil)}))
		dis := p(NewRefSchema("X", nil), false, nil)
		dis.Disable("off")
		return NewScopeSchema(NewObjectSchema("A", map[string]*PropertySchema{
			"ls":  p(NewListSchema(innerL, nil, nil), false, nil),
			"ms":  p(NewMapSchema(NewStringSchema(nil, nil, nil), innerM, nil, nil), false, nil),
			"dis": dis,
		}), NewObjectSchema("X", map[string]*PropertySchema{"v": p(NewIntSchema(nil, nil, nil), false, nil)}))
	}
	if k == 4 { // inline objects (not registered in any scope) carrying defaults: as a property type and as a list item
		sub := NewObjectSchema("Sub", map[string]*PropertySchema{"n": p(NewIntSchema(nil, nil, nil), false, verifStrPtr("3"))})
		item := NewObjectSchema("It", map[string]*PropertySchema{"w": p(NewStringSchema(nil, nil, nil), false, verifStrPtr(`"d"`))})
		return NewScopeSchema(NewObjectSchema("A", map[string]*PropertySchema{
			"sub":   p(sub, false, nil),
			"items": p(NewListSchema(item, nil, nil), false, nil),
		}))
	}
	// inlined int one-of and a nested scope
	inner := NewScopeSchema(NewObjectSchema("B", map[string]*PropertySchema{"z": p(NewFloatSchema(nil, nil, nil), false, nil)}))
	return NewScopeSchema(NewObjectSchema("A", map[string]*PropertySchema{
		"o": p(NewOneOfIntSchema[any](map[int64]Object{1: NewObjectSchema("M", map[string]*PropertySchema{
			"d": p(NewIntSchema(nil, nil, nil), true, nil),
		})}, "d", true), false, nil),
		"in": p(inner, false, nil),
		"y":  p(NewAnySchema(), false, nil),
	}))
}

// verifExerciseScope runs every operation on inputs that are valid for the unmutated base (so that, mutation
// permitting, every part of the schema is actually reached: defaults, units, patterns, members, nested scopes) and
// on a few that are not.
func verifExerciseScope(s *ScopeSchema, base int) {
	inputs := []any{map[string]any{}, nil, "x", int64(5)}
	switch base {
	case 0:
		inputs = append(inputs,
			map[string]any{"o": map[string]any{"d": "x", "v": int64(1)}, "next": map[string]any{"o": map[string]any{"d": "x"}}},
			map[string]any{"o": map[string]any{"d": "x"}},
			map[string]any{"o": map[string]any{"d": "nope"}, "next": "x"},
		)
	case 1:
		inputs = append(inputs,
			map[string]any{"s": "ab", "i": "5m", "e": "a", "l": []any{map[any]any{int64(1): true}}},
			map[string]any{"i": int64(90)},
			map[string]any{"s": "", "i": "x", "e": "b", "l": []any{int64(1)}},
		)
	case 2:
		inputs = append(inputs,
			map[any]any{"o": map[string]any{"d": int64(1)}, "in": map[string]any{"z": 1.5}, "y": []any{int64(1)}},
			map[string]any{"o": map[string]any{"d": int64(2)}, "in": "x"},
		)
	case 4:
		inputs = append(inputs,
			map[string]any{"sub": map[string]any{}, "items": []any{map[string]any{}}},
			map[string]any{"sub": map[string]any{"n": int64(1)}, "items": []any{map[string]any{"w": "x"}, "y"}},
		)
	case 3:
		inputs = append(inputs,
			map[string]any{"ls": []any{map[string]any{"z": 1.5}, "x"}, "ms": map[string]any{"k": map[string]any{"q": true}, "j": int64(1)}},
			map[string]any{"ls": []any{}, "ms": map[string]any{}},
			map[string]any{"dis": map[string]any{"v": int64(1)}},
		)
	}
	for _, in := range inputs {
		u, err := s.Unserialize(verifClone(in))
		if err == nil {
			_ = s.Validate(u)
			_, _ = s.Serialize(u)
		}
		_ = s.ValidateCompatibility(verifClone(in))
		_ = s.Validate(in)
		_, _ = s.Serialize(in)
	}
	_, _ = s.SelfSerialize()
	_ = s.ValidateReferences()
	// schema-mode ValidateCompatibility(s) is left to C15: a mutation can make any base recursive, and compatibility
	// of recursive scopes is that property's known finding
}

func VerifC10_MutatedScope() {
	baseK := nondetChoice("base", 5)
	base := verifMutationBase(baseK)
	d, err := base.SelfSerialize()
	verifAssert("C10/scope/base-describes-itself", err == nil)
	if err != nil {
		return
	}
	tree := verifClone(d)
	nodes := verifNodes(tree)
	nmax := 400
	if len(nodes) < nmax {
		nmax = len(nodes)
	}
	ni := nondetChoice("node", nmax)
	op := nondetChoice("op", verifNMutOps)
	verifApplyMutation(nodes[ni], op)
	if verifTier() > 0 {
		// thorough: a second mutation (delete or retype) at every 8th node of the already mutated tree
		nodes2 := verifNodes(tree)
		if len(nodes2) > 0 {
			k2 := nondetChoice("node2", (len(nodes2)+7)/8+1)
			if k2 > 0 {
				op2 := nondetChoice("op2", 2)
				verifApplyMutation(nodes2[(k2-1)*8], op2)
			}
		}
	}
	verifReach("C10/scope/mutated")
	s, uerr := UnserializeScope(tree)
	// "fully usable" is promised for schemas whose references are all linked; a reference into a namespace that
	// the receiver never applies is reported by ValidateReferences (documented contract) and is not exercised
	foreign := verifForeignNamespace(tree)
	if uerr == nil && s != nil && !foreign {
		// every reference is in the scope's own namespace: an accepted description is fully linked
		verifAssert("C10/scope/accepted-means-linked", s.ValidateReferences() == nil)
	}
	if uerr == nil && s != nil && (!foreign || s.ValidateReferences() == nil) {
		verifCover("C10/scope/accepted")
		verifExerciseScope(s, baseK)
	} else {
		verifCover("C10/scope/rejected")
	}
	verifReach("C10/scope/end")
}

func VerifC10_MutatedPluginSchema() {
	scope := func(id string, t Type) *ScopeSchema {
		return NewScopeSchema(NewObjectSchema(id, map[string]*PropertySchema{
			"v": NewPropertySchema(t, nil, true, nil, nil, nil, nil, nil),
			"r": NewPropertySchema(NewRefSchema(id, nil), nil, false, nil, nil, nil, nil, nil),
		}))
	}
	step := NewCallableStepWithSignals[*int, map[string]any](
		"s", scope("In", NewIntSchema(nil, nil, nil)),
		map[string]*StepOutputSchema{"ok": NewStepOutputSchema(scope("Ok", NewIntSchema(nil, nil, nil)), nil, false)},
		map[string]CallableSignal{
			"sig": NewCallableSignal[*int, map[string]any]("sig", scope("Sig", NewBoolSchema()), nil, func(ctx context.Context, d *int, in map[string]any) {}),
		},
		map[string]*SignalSchema{"emit": NewSignalSchema("emit", scope("Emit", NewBoolSchema()), nil)},
		nil,
		func() *int { return nil },
		func(ctx context.Context, d *int, in map[string]any) (string, any) { return "ok", in },
	)
	d, err := NewCallableSchema(step).SelfSerialize()
	verifAssert("C10/plugin/base-describes-itself", err == nil)
	if err != nil {
		return
	}
	tree := verifClone(d)
	nodes := verifNodes(tree)
	nmax := 400
	if len(nodes) < nmax {
		nmax = len(nodes)
	}
	ni := nondetChoice("node", nmax)
	op := nondetChoice("op", verifNMutOps)
	verifApplyMutation(nodes[ni], op)
	verifReach("C10/plugin/mutated")
	s, uerr := UnserializeSchema(tree)
	linked := true
	foreign := verifForeignNamespace(tree)
	if uerr == nil && s != nil {
		for _, st := range s.StepsValue {
			if st != nil && st.InputValue != nil && st.InputValue.ValidateReferences() != nil {
				linked = false
			}
		}
		if !foreign {
			verifAssert("C10/plugin/accepted-means-linked", linked)
		}
	}
	if uerr == nil && s != nil && (linked || !foreign) {
		verifCover("C10/plugin/accepted")
		for _, st := range s.StepsValue {
			if st == nil {
				continue
			}
			if st.InputValue != nil {
				u, e := st.InputValue.Unserialize(map[string]any{"v": int64(1), "r": map[string]any{"v": int64(2)}})
				if e == nil {
					_ = st.InputValue.Validate(u)
					_, _ = st.InputValue.Serialize(u)
				}
			}
			for _, o := range st.OutputsValue {
				if o != nil && o.SchemaValue != nil && (!foreign || o.ValidateReferences() == nil) {
					_, _ = o.Unserialize(map[string]any{"v": int64(1), "r": map[string]any{"v": int64(2)}})
				}
			}
			for _, sg := range st.SignalHandlersValue {
				if sg != nil && sg.DataSchemaValue != nil && (!foreign || sg.DataSchemaValue.ValidateReferences() == nil) {
					_, _ = sg.DataSchemaValue.Unserialize(map[string]any{"v": true, "r": map[string]any{"v": false}})
				}
			}
			for _, sg := range st.SignalEmittersValue {
				if sg != nil && sg.DataSchemaValue != nil && (!foreign || sg.DataSchemaValue.ValidateReferences() == nil) {
					_, _ = sg.DataSchemaValue.Unserialize(map[string]any{"v": true, "r": map[string]any{"v": false}})
					_ = sg.DataSchemaValue.Validate(map[string]any{"v": true, "r": map[string]any{"v": false}})
				}
			}
		}
		_, _ = s.SelfSerialize()
	} else {
		verifCover("C10/plugin/rejected")
	}
	verifReach("C10/plugin/end")
}

// grammar-free input
func VerifC10_Garbage() {
	k := nondetChoice("shape", 10)
	var d any
	switch k {
	case 0:
		d = nil
	case 1:
		d = "schema"
	case 2:
		d = nondetInt64("n")
	case 3:
		d = []any{}
	case 4:
		d = map[string]any{}
	case 5:
		d = map[any]any{int64(1): "x"}
	case 6:
		d = map[string]any{"steps": map[string]any{"s": nil}}
	case 7:
		d = map[string]any{"steps": map[string]any{"s": map[string]any{"id": "s", "input": map[string]any{"root": "A", "objects": map[string]any{}}, "outputs": map[string]any{}}}}
	case 8:
		d = map[string]any{"root": "A", "objects": map[string]any{"A": nil}}
	case 9:
		d = map[string]any{"root": "A", "objects": map[string]any{"B": map[string]any{"id": "A", "properties": map[string]any{}}}}
	}
	if s, err := UnserializeSchema(verifClone(d)); err == nil && s != nil {
		_, _ = s.SelfSerialize()
	}
	if s, err := UnserializeScope(verifClone(d)); err == nil && s != nil && s.ValidateReferences() == nil {
		verifCover("C10/garbage/accepted")
		verifExerciseScope(s, 0)
	}
	verifReach("C10/garbage/end")
}
