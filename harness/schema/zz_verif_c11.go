package schema

import (
	"context"
	"errors"
	"sync"
)

// C11 — step calls: the handler runs iff the input is valid; outputs are checked; bad IDs are errors; the per-run
// step data is created exactly once per run ID whichever of the step or its signals arrives first.

func init() {
	verifRegister("VerifC11_CallStep", VerifC11_CallStep)
	verifRegister("VerifC11_CallSignal", VerifC11_CallSignal)
	verifRegister("VerifC11_StepDataOnce", VerifC11_StepDataOnce)
	verifRegister("VerifC11_StepDataOnceConc", VerifC11_StepDataOnceConc)
	verifRegister("VerifC11_NoInitializer", VerifC11_NoInitializer)
}

type verifStepData struct{ id int }

func verifScopeOf(props map[string]*PropertySchema, id string) *ScopeSchema {
	return NewScopeSchema(NewObjectSchema(id, props))
}

func VerifC11_CallStep() {
	min, max := verifOptInt64("min"), verifOptInt64("max")
	omin := verifOptInt64("omin")
	calls := 0
	var lastArg map[string]any
	outID := nondetStringFrom("outID", "ok", "err", "undeclared")
	outKind := nondetChoice("outKind", 4) // 0 conforming shape with symbolic value, 1 wrong type, 2 missing field, 3 nil data
	ov := nondetInt64("ov")
	step := NewCallableStep[map[string]any](
		"s",
		verifScopeOf(map[string]*PropertySchema{
			"n": NewPropertySchema(NewIntSchema(min, max, nil), nil, true, nil, nil, nil, nil, nil),
		}, "In"),
		map[string]*StepOutputSchema{
			"ok": NewStepOutputSchema(verifScopeOf(map[string]*PropertySchema{
				"o": NewPropertySchema(NewIntSchema(omin, nil, nil), nil, true, nil, nil, nil, nil, nil),
			}, "Ok"), nil, false),
			"err": NewStepOutputSchema(verifScopeOf(map[string]*PropertySchema{
				"o": NewPropertySchema(NewIntSchema(nil, nil, nil), nil, true, nil, nil, nil, nil, nil),
			}, "Err"), nil, true),
		},
		nil,
		func(ctx context.Context, in map[string]any) (string, any) {
			calls++
			lastArg = in
			switch outKind {
			case 1:
				return outID, map[string]any{"o": "notanumber"}
			case 2:
				return outID, map[string]any{}
			case 3:
				return outID, nil
			}
			return outID, map[string]any{"o": ov}
		},
	)
	s := NewCallableSchema(step)
	stepID := nondetStringFrom("stepID", "s", "zz", "")
	rep := nondetChoice("rep", repCount)
	rawN, intOK, n, _ := verifRawNumber("n", rep)
	hasExtra := nondetBool("extra")
	raw := map[string]any{"n": rawN}
	if hasExtra {
		raw["x"] = int64(1)
	}
	gotID, gotData, err := s.CallStep(context.Background(), "run1", stepID, raw)

	known := stepID == "s"
	inputOK := vAnd(vAnd(intOK, specInRangeInt(n, min, max)), !hasExtra)
	verifAssert("C11/step/handler-runs-iff-known-step-and-valid-input", vIff(calls == 1, vAnd(known, inputOK)))
	verifAssert("C11/step/handler-runs-at-most-once", calls <= 1)
	if calls == 1 {
		verifAssert("C11/step/handler-gets-unserialized-input", len(lastArg) == 1 && lastArg["n"].(int64) == n)
	}
	declared := vOr(outID == "ok", outID == "err")
	dataOK := outKind == 0
	if outKind == 0 && omin != nil {
		dataOK = vOr(outID != "ok", ov >= *omin)
	}
	success := vAnd(vAnd(known, inputOK), vAnd(declared, dataOK))
	verifAssert("C11/step/success-iff-all-conditions", vIff(err == nil, success))
	if err == nil {
		verifAssert("C11/step/returns-handler-output-id", gotID == outID)
		m, isMap := gotData.(map[string]any)
		verifAssert("C11/step/returns-serialized-output", isMap && m["o"].(int64) == ov)
	} else {
		var bae BadArgumentError
		var iie InvalidInputError
		var ioe InvalidOutputError
		isBAE, isIIE, isIOE := errors.As(err, &bae), errors.As(err, &iie), errors.As(err, &ioe)
		verifAssert("C11/step/unknown-step-is-bad-argument", vIff(isBAE, !known))
		verifAssert("C11/step/rejected-input-is-invalid-input", vIff(isIIE, vAnd(known, vNot(inputOK))))
		verifAssert("C11/step/undeclared-output-is-invalid-output", vImplies(vAnd(vAnd(known, inputOK), vNot(declared)), isIOE))
		verifAssert("C11/step/no-data-with-error", gotData == nil)
	}
	verifObserve("ok", err == nil)
	verifReach("C11/step/end")
}

// what the step handler of verifSignalStep returns (nil: "ok" with conforming data)
var verifStepBehaviour func() (string, any)

// the recording closures of the harness are themselves called from several goroutines
var verifSeenMu sync.Mutex

func verifSignalStep(initCount *int, seen *[]*verifStepData, sigCalls *int, smin *int64) CallableStep {
	verifStepBehaviour = nil
	return NewCallableStepWithSignals[*verifStepData, map[string]any](
		"s",
		verifScopeOf(map[string]*PropertySchema{"n": NewPropertySchema(NewIntSchema(nil, nil, nil), nil, false, nil, nil, nil, nil, nil)}, "In"),
		map[string]*StepOutputSchema{
			"ok": NewStepOutputSchema(verifScopeOf(map[string]*PropertySchema{}, "Ok"), nil, false),
		},
		map[string]CallableSignal{
			"sig": NewCallableSignal[*verifStepData, map[string]any]("sig",
				verifScopeOf(map[string]*PropertySchema{"v": NewPropertySchema(NewIntSchema(smin, nil, nil), nil, true, nil, nil, nil, nil, nil)}, "Sig"),
				nil,
				func(ctx context.Context, d *verifStepData, in map[string]any) {
					verifSeenMu.Lock()
					*sigCalls = *sigCalls + 1
					*seen = append(*seen, d)
					verifSeenMu.Unlock()
				}),
		},
		nil, nil,
		func() *verifStepData {
			verifSeenMu.Lock()
			defer verifSeenMu.Unlock()
			*initCount = *initCount + 1
			return &verifStepData{id: *initCount}
		},
		func(ctx context.Context, d *verifStepData, in map[string]any) (string, any) {
			verifSeenMu.Lock()
			*seen = append(*seen, d)
			verifSeenMu.Unlock()
			if verifStepBehaviour != nil {
				return verifStepBehaviour()
			}
			return "ok", map[string]any{}
		},
	)
}

func VerifC11_CallSignal() {
	initCount, sigCalls := 0, 0
	var seen []*verifStepData
	smin := verifOptInt64("smin")
	s := NewCallableSchema(verifSignalStep(&initCount, &seen, &sigCalls, smin))
	stepID := nondetStringFrom("stepID", "s", "zz")
	sigID := nondetStringFrom("sigID", "sig", "nope", "")
	v := nondetInt64("v")
	hasV := nondetBool("hasV")
	raw := map[string]any{}
	if hasV {
		raw["v"] = v
	}
	err := s.CallSignal(context.Background(), "run1", stepID, sigID, raw)
	known := vAnd(stepID == "s", sigID == "sig")
	inOK := hasV
	if hasV && smin != nil {
		inOK = v >= *smin
	}
	verifAssert("C11/signal/handler-runs-iff-known-ids-and-valid-input", vIff(sigCalls == 1, vAnd(known, inOK)))
	verifAssert("C11/signal/success-iff-handler-ran", vIff(err == nil, vAnd(known, inOK)))
	if err != nil {
		var bae BadArgumentError
		var iie InvalidInputError
		verifAssert("C11/signal/unknown-id-is-bad-argument", vIff(errors.As(err, &bae), vNot(known)))
		verifAssert("C11/signal/rejected-input-is-invalid-input", vIff(errors.As(err, &iie), vAnd(known, vNot(inOK))))
	}
	verifObserve("ok", err == nil)
	verifReach("C11/signal/end")
}

// arrival orders, sequentially: the initializer runs once per run ID and every handler of a run sees that data
func VerifC11_StepDataOnce() {
	initCount, sigCalls := 0, 0
	var seen []*verifStepData
	s := NewCallableSchema(verifSignalStep(&initCount, &seen, &sigCalls, nil))
	order := nondetChoice("order", 4)
	ctx := context.Background()
	// how the step ends: declared output, undeclared output id, non-conforming data, or its input is rejected
	// (in which case the step handler never runs but a run's signals still share one step data)
	ending := nondetChoice("ending", 4)
	switch ending {
	case 1:
		verifStepBehaviour = func() (string, any) { return "undeclared", map[string]any{} }
	case 2:
		verifStepBehaviour = func() (string, any) { return "ok", map[string]any{"zz": int64(1)} }
	}
	sig := func(run string) { _ = s.CallSignal(ctx, run, "s", "sig", map[string]any{"v": int64(1)}) }
	stp := func(run string) {
		in := map[string]any{}
		if ending == 3 {
			in["n"] = "not a number"
		}
		_, _, err := s.CallStep(ctx, run, "s", in)
		verifAssert("C11/stepdata/step-result-as-ending", (err == nil) == (ending == 0))
	}
	runs := 1
	switch order {
	case 0:
		stp("r1")
		sig("r1")
	case 1:
		sig("r1")
		stp("r1")
		sig("r1")
	case 2:
		sig("r1")
		sig("r2")
		stp("r2")
		stp("r1")
		runs = 2
	case 3:
		stp("r1")
		stp("r2")
		sig("r1")
		sig("r2")
		sig("r1")
		runs = 2
	}
	verifAssert("C11/stepdata/initializer-once-per-run", initCount == runs)
	// group what the handlers saw by the data's identity: per run all the same
	distinct := map[*verifStepData]bool{}
	for _, d := range seen {
		distinct[d] = true
	}
	verifAssert("C11/stepdata/one-data-object-per-run", len(distinct) == runs)
	verifObserve("inits", initCount)
	verifReach("C11/stepdata/end")
}

// the same with the calls racing each other (every interleaving at synchronisation points, bounded preemptions)
func VerifC11_StepDataOnceConc() { verifStepDataRace("C11/stepdata-conc") }

// verifStepDataRace is shared with C13 (step calls from several goroutines behave as in isolation)
func verifStepDataRace(prefix string) {
	initCount, sigCalls := 0, 0
	var seen []*verifStepData
	var mu sync.Mutex
	_ = &mu
	s := NewCallableSchema(verifSignalStep(&initCount, &seen, &sigCalls, nil))
	ctx := context.Background()
	if verifTier() > 0 {
		verifSchedBound(2) // thorough: every pair of preemptions
	}
	twoRuns := nondetBool("twoRuns")
	var wg sync.WaitGroup
	wg.Add(3)
	go func() {
		defer wg.Done()
		_, _, _ = s.CallStep(ctx, "r1", "s", map[string]any{})
	}()
	go func() {
		defer wg.Done()
		_ = s.CallSignal(ctx, "r1", "s", "sig", map[string]any{"v": int64(1)})
	}()
	go func() {
		defer wg.Done()
		run := "r1"
		if twoRuns {
			run = "r2"
		}
		_ = s.CallSignal(ctx, run, "s", "sig", map[string]any{"v": int64(2)})
	}()
	wg.Wait()
	runs := 1
	if twoRuns {
		runs = 2
	}
	verifAssert(prefix+"/initializer-once-per-run", initCount == runs)
	// every handler of a run saw that run's one step data
	distinct := map[*verifStepData]bool{}
	for _, d := range seen {
		distinct[d] = true
	}
	verifAssert(prefix+"/one-data-object-per-run", len(distinct) == runs)
	verifObserve("inits", initCount)
	verifReach(prefix + "/end")
}

// VerifC11_NoInitializer: the initializer is optional (NewCallableStepWithSignals checks it for nil). Without one the
// run's step data is the zero value of the step-data type — for an interface type that is nil — and it is still
// "the only step data that run's signal handlers ever see": the signal must be delivered, not panic.
func VerifC11_NoInitializer() {
	sigCalls, stepCalls := 0, 0
	var sigSaw, stepSaw any = 1, 1
	step := NewCallableStepWithSignals[any, map[string]any](
		"s",
		verifScopeOf(map[string]*PropertySchema{}, "In"),
		map[string]*StepOutputSchema{"ok": NewStepOutputSchema(verifScopeOf(map[string]*PropertySchema{}, "Ok"), nil, false)},
		map[string]CallableSignal{
			"sig": NewCallableSignal[any, map[string]any]("sig",
				verifScopeOf(map[string]*PropertySchema{"v": NewPropertySchema(NewIntSchema(nil, nil, nil), nil, true, nil, nil, nil, nil, nil)}, "Sig"),
				nil,
				func(ctx context.Context, d any, in map[string]any) {
					sigCalls++
					sigSaw = d
				}),
		},
		nil, nil,
		nil,
		func(ctx context.Context, d any, in map[string]any) (string, any) {
			stepCalls++
			stepSaw = d
			return "ok", map[string]any{}
		},
	)
	s := NewCallableSchema(step)
	signalFirst := nondetBool("signalFirst")
	v := nondetInt64("v")
	var sigErr, stepErr error
	if signalFirst {
		sigErr = s.CallSignal(context.Background(), "r", "s", "sig", map[string]any{"v": v})
		_, _, stepErr = s.CallStep(context.Background(), "r", "s", map[string]any{})
	} else {
		_, _, stepErr = s.CallStep(context.Background(), "r", "s", map[string]any{})
		sigErr = s.CallSignal(context.Background(), "r", "s", "sig", map[string]any{"v": v})
	}
	verifAssert("C11/noinit/signal-delivered-without-initializer", sigErr == nil && sigCalls == 1)
	verifAssert("C11/noinit/step-runs", stepErr == nil && stepCalls == 1)
	verifAssert("C11/noinit/both-see-the-zero-step-data", sigSaw == nil && stepSaw == nil)
	verifReach("C11/noinit/end")
}
