package schema

import (
	"math"
	"regexp"
)

// C02 — Unserialize accepts exactly the values meeting every declared value constraint.
// Oracles below are independent restatements of the property text; they never call the code under test.

func init() {
	verifRegister("VerifC02_Int", VerifC02_Int)
	verifRegister("VerifC02_IntNative", VerifC02_IntNative)
	verifRegister("VerifC02_Float", VerifC02_Float)
	verifRegister("VerifC02_FloatNative", VerifC02_FloatNative)
	verifRegister("VerifC02_IntString", VerifC02_IntString)
	verifRegister("VerifC02_String", VerifC02_String)
	verifRegister("VerifC02_StringPattern", VerifC02_StringPattern)
	verifRegister("VerifC02_Bool", VerifC02_Bool)
	verifRegister("VerifC02_IntEnum", VerifC02_IntEnum)
	verifRegister("VerifC02_StringEnum", VerifC02_StringEnum)
	verifRegister("VerifC02_List", VerifC02_List)
	verifRegister("VerifC02_Map", VerifC02_Map)
}

func specInRangeInt(n int64, min, max *int64) bool {
	ok := true
	if min != nil {
		ok = vAnd(ok, n >= *min)
	}
	if max != nil {
		ok = vAnd(ok, n <= *max)
	}
	return ok
}

// a declared bound excludes NaN: the comparisons below are false for NaN
func specInRangeFloat(f float64, min, max *float64) bool {
	ok := true
	if min != nil {
		ok = vAnd(ok, f >= *min)
	}
	if max != nil {
		ok = vAnd(ok, f <= *max)
	}
	return ok
}

func VerifC02_Int() {
	min, max := verifOptInt64("min"), verifOptInt64("max")
	s := NewIntSchema(min, max, nil)
	rep := nondetChoice("rep", repCount)
	raw, intOK, n, _ := verifRawNumber("raw", rep)
	got, err := s.Unserialize(raw)
	accept := vAnd(intOK, specInRangeInt(n, min, max))
	verifAssert("C02/int/unserialize-accepts-iff-spec", vIff(err == nil, accept))
	if err == nil {
		verifAssert("C02/int/unserialize-value", got.(int64) == n)
		verifObserve("got", got)
	}
	verifObserve("accepted", err == nil)
	verifReach("C02/int/end")
}

func VerifC02_IntNative() {
	min, max := verifOptInt64("min"), verifOptInt64("max")
	s := NewIntSchema(min, max, nil)
	v := nondetInt64("v")
	spec := specInRangeInt(v, min, max)
	verr := s.Validate(v)
	verifAssert("C02/int/validate-iff-spec", vIff(verr == nil, spec))
	ser, serr := s.Serialize(v)
	verifAssert("C02/int/serialize-iff-spec", vIff(serr == nil, spec))
	if serr == nil {
		verifAssert("C02/int/serialize-value", ser.(int64) == v)
	}
	terr := s.ValidateType(v)
	verifAssert("C02/int/validatetype-iff-spec", vIff(terr == nil, spec))
	verifObserve("ok", verr == nil)
	verifReach("C02/intnative/end")
}

func VerifC02_Float() {
	min, max := verifOptFloat64("min"), verifOptFloat64("max")
	s := NewFloatSchema(min, max, nil)
	rep := nondetChoice("rep", repCount)
	raw, _, _, f := verifRawNumber("raw", rep)
	got, err := s.Unserialize(raw)
	accept := specInRangeFloat(f, min, max)
	known := verifKnown("C02/float-nan-passes-bounds", vAnd(f != f, vOr(min != nil, max != nil)))
	_ = known
	verifAssert("C02/float/unserialize-accepts-iff-spec", vIff(err == nil, accept))
	if err == nil {
		g := got.(float64)
		verifAssert("C02/float/unserialize-value", vOr(g == f, vAnd(g != g, f != f)))
		verifObserve("got", got)
	}
	verifObserve("accepted", err == nil)
	verifReach("C02/float/end")
}

func VerifC02_FloatNative() {
	min, max := verifOptFloat64("min"), verifOptFloat64("max")
	s := NewFloatSchema(min, max, nil)
	v := nondetFloat64("v")
	spec := specInRangeFloat(v, min, max)
	verifKnown("C02/float-nan-passes-bounds", vAnd(v != v, vOr(min != nil, max != nil)))
	verr := s.Validate(v)
	verifAssert("C02/float/validate-iff-spec", vIff(verr == nil, spec))
	_, serr := s.Serialize(v)
	verifAssert("C02/float/serialize-iff-spec", vIff(serr == nil, spec))
	verifObserve("ok", verr == nil)
	verifReach("C02/floatnative/end")
}

// numeric strings: an optional minus sign followed by 1..N decimal digits denotes that integer if it fits.
func VerifC02_IntString() {
	min, max := verifOptInt64("min"), verifOptInt64("max")
	s := NewIntSchema(min, max, nil)
	nd := 1 + nondetChoice("ndigits", 3)
	if verifTier() > 0 {
		nd = 17 + nondetChoice("ndigitsHi", 3) // 17..19 digits: around the 2^63 edge
	}
	digits := nondetDigits("d", nd)
	neg := nondetBool("neg")
	raw := digits
	if neg {
		raw = "-" + digits
	}
	// spec: value of the digit string; nd<=19 digits always fits uint64, range check against int64
	var mag uint64
	for i := 0; i < nd; i++ {
		mag = mag*10 + uint64(digits[i]-'0')
	}
	fits := vIteBool(neg, mag <= 1<<63, mag <= 1<<63-1)
	n := int64(mag)
	if neg {
		n = -n
	}
	got, err := s.Unserialize(raw)
	accept := vAnd(fits, specInRangeInt(n, min, max))
	verifAssert("C02/intstring/unserialize-accepts-iff-spec", vIff(err == nil, accept))
	if err == nil {
		verifAssert("C02/intstring/value", got.(int64) == n)
	}
	verifObserve("accepted", err == nil)
	verifReach("C02/intstring/end")
}

func VerifC02_String() {
	min, max := verifOptInt64("min"), verifOptInt64("max")
	s := NewStringSchema(min, max, nil)
	raw := nondetStringLen("raw", 70000)
	n := int64(len(raw))
	spec := specInRangeInt(n, min, max)
	got, err := s.Unserialize(raw)
	verifAssert("C02/string/unserialize-accepts-iff-spec", vIff(err == nil, spec))
	if err == nil {
		verifAssert("C02/string/value", got.(string) == raw)
	}
	verr := s.Validate(raw)
	verifAssert("C02/string/validate-iff-spec", vIff(verr == nil, spec))
	_, serr := s.Serialize(raw)
	verifAssert("C02/string/serialize-iff-spec", vIff(serr == nil, spec))
	terr := s.ValidateType(raw)
	verifAssert("C02/string/validatetype-iff-spec", vIff(terr == nil, spec))
	verifObserve("accepted", err == nil)
	verifReach("C02/string/end")
}

// strings with multi-byte characters: every entry point must measure length the same way (bytes, as len does)
func VerifC02_StringMultibyte() {
	min, max := verifOptInt64("min"), verifOptInt64("max")
	s := NewStringSchema(min, max, nil)
	raw := nondetStringFrom("raw", "", "a", "é", "éé", "héé", "日本", "aaaa", "a\u00e9b", "\U0001F600")
	n := int64(len(raw))
	spec := specInRangeInt(n, min, max)
	_, err := s.Unserialize(raw)
	verifAssert("C02/mbstring/unserialize-accepts-iff-spec", vIff(err == nil, spec))
	verifAssert("C02/mbstring/validate-iff-spec", vIff(s.Validate(raw) == nil, spec))
	_, serr := s.Serialize(raw)
	verifAssert("C02/mbstring/serialize-iff-spec", vIff(serr == nil, spec))
	verifAssert("C02/mbstring/validatetype-iff-spec", vIff(s.ValidateType(raw) == nil, spec))
	_, sterr := s.SerializeType(raw)
	verifAssert("C02/mbstring/serializetype-iff-spec", vIff(sterr == nil, spec))
	verifObserve("accepted", err == nil)
	verifReach("C02/mbstring/end")
}

func init() { verifRegister("VerifC02_StringMultibyte", VerifC02_StringMultibyte) }

var verifPatAB = regexp.MustCompile("^a+b?$")

func VerifC02_StringPattern() {
	min, max := verifOptInt64("min"), verifOptInt64("max")
	s := NewStringSchema(min, max, verifPatAB)
	raw := nondetStringFrom("raw", "", "a", "ab", "aab", "b", "abb", "aaaa", "xa")
	match := vOr(vOr(raw == "a", raw == "ab"), vOr(raw == "aab", raw == "aaaa"))
	n := int64(len(raw))
	spec := vAnd(specInRangeInt(n, min, max), match)
	_, err := s.Unserialize(raw)
	verifAssert("C02/pattern/unserialize-accepts-iff-spec", vIff(err == nil, spec))
	verr := s.Validate(raw)
	verifAssert("C02/pattern/validate-iff-spec", vIff(verr == nil, spec))
	_, serr := s.Serialize(raw)
	verifAssert("C02/pattern/serialize-iff-spec", vIff(serr == nil, spec))
	p := NewPatternSchema()
	_ = p
	verifObserve("accepted", err == nil)
	verifReach("C02/pattern/end")
}

func VerifC02_Bool() {
	s := NewBoolSchema()
	rep := nondetChoice("rep", repCount)
	raw, intOK, n, _ := verifRawNumber("raw", rep)
	got, err := s.Unserialize(raw)
	isFloat := rep == repFloat64 || rep == repFloat32
	if isFloat {
		// floats are not boolean representations
		verifAssert("C02/bool/float-rejected", err != nil)
	} else {
		accept := vAnd(intOK, vOr(n == 0, n == 1))
		if rep == repUint64 || rep == repUint {
			// the conversion is by wrap-around cast; only 0 and 1 map to 0 and 1
			accept = vOr(n == 0, n == 1)
		}
		verifAssert("C02/bool/unserialize-accepts-iff-spec", vIff(err == nil, accept))
		if err == nil {
			verifAssert("C02/bool/value", got.(bool) == (n == 1))
		}
	}
	verifObserve("accepted", err == nil)
	verifReach("C02/bool/end")
}

func VerifC02_IntEnum() {
	a, b := nondetInt64("a"), nondetInt64("b")
	s := NewIntEnumSchema(map[int64]*DisplayValue{a: nil, b: nil}, nil)
	rep := nondetChoice("rep", repCount)
	raw, intOK, n, _ := verifRawNumber("raw", rep)
	got, err := s.Unserialize(raw)
	accept := vAnd(intOK, vOr(n == a, n == b))
	verifAssert("C02/intenum/unserialize-accepts-iff-spec", vIff(err == nil, accept))
	if err == nil {
		verifAssert("C02/intenum/value", got.(int64) == n)
	}
	v := nondetInt64("v")
	member := vOr(v == a, v == b)
	verifAssert("C02/intenum/validate-iff-member", vIff(s.Validate(v) == nil, member))
	_, serr := s.Serialize(v)
	verifAssert("C02/intenum/serialize-iff-member", vIff(serr == nil, member))
	verifObserve("accepted", err == nil)
	verifReach("C02/intenum/end")
}

func VerifC02_StringEnum() {
	s := NewStringEnumSchema(map[string]*DisplayValue{"a": nil, "bb": nil})
	raw := nondetStringFrom("raw", "a", "bb", "", "A", "b", "abb")
	member := vOr(raw == "a", raw == "bb")
	got, err := s.Unserialize(raw)
	verifAssert("C02/strenum/unserialize-accepts-iff-member", vIff(err == nil, member))
	if err == nil {
		verifAssert("C02/strenum/value", got.(string) == raw)
	}
	verifAssert("C02/strenum/validate-iff-member", vIff(s.Validate(raw) == nil, member))
	_, serr := s.Serialize(raw)
	verifAssert("C02/strenum/serialize-iff-member", vIff(serr == nil, member))
	verifObserve("accepted", err == nil)
	verifReach("C02/strenum/end")
}

func VerifC02_List() {
	imin := verifOptInt64("imin")
	lmin, lmax := verifOptInt64("lmin"), verifOptInt64("lmax")
	l := NewListSchema(NewIntSchema(imin, nil, nil), lmin, lmax)
	maxLen := 3
	if verifTier() > 0 {
		maxLen = 4
	}
	n := nondetChoice("len", maxLen+1)
	raw := make([]any, n)
	itemsOK := true
	vals := make([]int64, n)
	for i := 0; i < n; i++ {
		v := nondetInt64(verifNm("e", i))
		raw[i] = v
		vals[i] = v
		if imin != nil {
			itemsOK = vAnd(itemsOK, v >= *imin)
		}
	}
	sizeOK := specInRangeInt(int64(n), lmin, lmax)
	got, err := l.Unserialize(raw)
	verifAssert("C02/list/unserialize-accepts-iff-spec", vIff(err == nil, vAnd(sizeOK, itemsOK)))
	if err == nil {
		res := got.([]int64)
		verifAssert("C02/list/len", len(res) == n)
		for i := 0; i < n && i < len(res); i++ {
			verifAssert("C02/list/elem", res[i] == vals[i])
		}
		verifObserve("got", got)
	}
	// native form
	verr := l.Validate(vals)
	verifAssert("C02/list/validate-iff-spec", vIff(verr == nil, vAnd(sizeOK, itemsOK)))
	ser, serr := l.Serialize(vals)
	verifAssert("C02/list/serialize-iff-spec", vIff(serr == nil, vAnd(sizeOK, itemsOK)))
	if serr == nil {
		verifObserve("ser", ser)
	}
	verifObserve("accepted", err == nil)
	verifReach("C02/list/end")
}

func VerifC02_Map() {
	kmin := verifOptInt64("kmin")
	vmax := verifOptInt64("vmax")
	mmin, mmax := verifOptInt64("mmin"), verifOptInt64("mmax")
	m := NewMapSchema(NewIntSchema(kmin, nil, nil), NewIntSchema(nil, vmax, nil), mmin, mmax)
	n := nondetChoice("len", 3)
	raw := map[any]any{}
	itemsOK := true
	var k0 int64
	for i := 0; i < n; i++ {
		k := nondetInt64(verifNm("k", i))
		v := nondetInt64(verifNm("v", i))
		if i == 0 {
			k0 = k
		} else {
			verifAssume(k != k0)
		}
		raw[k] = v
		if kmin != nil {
			itemsOK = vAnd(itemsOK, k >= *kmin)
		}
		if vmax != nil {
			itemsOK = vAnd(itemsOK, v <= *vmax)
		}
	}
	sizeOK := specInRangeInt(int64(n), mmin, mmax)
	got, err := m.Unserialize(raw)
	verifAssert("C02/map/unserialize-accepts-iff-spec", vIff(err == nil, vAnd(sizeOK, itemsOK)))
	if err == nil {
		res := got.(map[int64]int64)
		verifAssert("C02/map/len", len(res) == n)
		verr := m.Validate(res)
		verifAssert("C02/map/validate-accepts-result", verr == nil)
	}
	verifObserve("accepted", err == nil)
	verifReach("C02/map/end")
}

// an integer schema with units: a unit string denotes the sum of count x multiplier when that fits in 64 bits, and
// is then subject to the bounds like any other representation; a sum that does not fit is rejected, never wrapped
func VerifC02_IntUnits() {
	min, max := verifOptInt64("min"), verifOptInt64("max")
	s := NewIntSchema(min, max, UnitBytes)
	pb, tb := nondetDigits("pb", 4), nondetDigits("tb", 4)
	var cp, ct uint64
	for j := 0; j < 4; j++ {
		cp = cp*10 + uint64(pb[j]-'0')
		ct = ct*10 + uint64(tb[j]-'0')
	}
	const mPB, mTB = int64(1125899906842624), int64(1099511627776)
	fitsP := cp <= uint64(math.MaxInt64/mPB)
	tP := int64(cp) * mPB
	tT := int64(ct) * mTB // 9999 TB always fits
	fits := vAnd(fitsP, vOr(vNot(fitsP), tP <= math.MaxInt64-tT))
	n := tP + tT
	got, err := s.Unserialize(pb + "PB" + tb + "TB")
	verifAssert("C02/intunits/accepts-iff-fits-and-in-range", vIff(err == nil, vAnd(fits, specInRangeInt(n, min, max))))
	if err == nil {
		verifAssert("C02/intunits/value-is-the-sum", got.(int64) == n)
	}
	verifObserve("ok", err == nil)
	verifReach("C02/intunits/end")
}

func init() { verifRegister("VerifC02_IntUnits", VerifC02_IntUnits) }
