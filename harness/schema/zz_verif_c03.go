package schema

// C03 — object presence rules, defaults and one-of dispatch are enforced as declared.

func init() {
	verifRegister("VerifC03_Presence", VerifC03_Presence)
	verifRegister("VerifC03_PresenceNative", VerifC03_PresenceNative)
	verifRegister("VerifC03_Keys", VerifC03_Keys)
	verifRegister("VerifC03_Shorthand", VerifC03_Shorthand)
	verifRegister("VerifC03_OneOfDispatch", VerifC03_OneOfDispatch)
	verifRegister("VerifC03_SubObjectDefaults", VerifC03_SubObjectDefaults)
}

var verifPropNames = [3]string{"p0", "p1", "p2"}

type verifRuleSet struct {
	required, disabled, hasDefault bool
	reqIf, reqIfNot, conflicts     []string
}

// verifRuleList returns a rule list of length 0..maxLen whose entries are solver variables over the property names.
func verifRuleList(tag string, n int, maxLen int) []string {
	l := nondetChoice(tag+".len", maxLen+1)
	out := make([]string, l)
	for i := 0; i < l; i++ {
		if n == 2 {
			out[i] = nondetStringFrom(verifNm(tag, i), "p0", "p1")
		} else {
			out[i] = nondetStringFrom(verifNm(tag, i), "p0", "p1", "p2")
		}
	}
	return out
}

func verifBuildRuleObject(n int, maxLen int, withDisabled bool) (*ObjectSchema, []verifRuleSet) {
	notLen := maxLen + 1 // "none of several" differs from "not all of several"
	if n == 3 {
		notLen = maxLen // three properties: one slot per list keeps the thorough run inside its time limit
	}
	props := map[string]*PropertySchema{}
	rules := make([]verifRuleSet, n)
	for i := 0; i < n; i++ {
		nm := verifPropNames[i]
		var r verifRuleSet
		if n != 3 {
			ml, nl := maxLen, notLen
			if maxLen > 1 && i > 0 {
				ml, nl = 1, 2 // the longer lists of the thorough tier on the first property only (product of shapes)
			}
			r = verifRuleSet{
				required:   nondetBool(nm + ".required"),
				hasDefault: nondetBool(nm + ".hasDefault"),
				reqIf:      verifRuleList(nm+".reqIf", n, ml),
				reqIfNot:   verifRuleList(nm+".reqIfNot", n, nl),
				conflicts:  verifRuleList(nm+".conflicts", n, ml),
			}
		} else {
			// three properties: each carries one kind of rule (its target still a solver variable over all three
			// names), only the first may have a default; the full product is the two-property grammar's job
			r = verifRuleSet{required: nondetBool(nm + ".required")}
			switch i {
			case 0:
				r.hasDefault = nondetBool(nm + ".hasDefault3")
				r.reqIf = verifRuleList(nm+".reqIf3", n, 1)
			case 1:
				r.reqIfNot = verifRuleList(nm+".reqIfNot3", n, 2)
			case 2:
				r.conflicts = verifRuleList(nm+".conflicts3", n, 1)
			}
		}
		if withDisabled && (maxLen == 1 || i == 0) {
			r.disabled = nondetBool(nm + ".disabled")
		}
		var def *string
		if r.hasDefault {
			def = verifStrPtr("7")
		}
		p := NewPropertySchema(NewIntSchema(nil, nil, nil), nil, r.required, r.reqIf, r.reqIfNot, r.conflicts, def, nil)
		if r.disabled {
			p.Disable("off")
		}
		props[nm] = p
		rules[i] = r
	}
	return NewObjectSchema("R", props), rules
}

// specIsSet: is the property named by the (solver-variable) string s set?
func specIsSet(s string, n int, set []bool) bool {
	r := false
	for i := 0; i < n; i++ {
		r = vOr(r, vAnd(s == verifPropNames[i], set[i]))
	}
	return r
}

// specPresence is the presence part of the property statement, given which properties are set.
func specPresence(n int, rules []verifRuleSet, set []bool) bool {
	ok := true
	for i := 0; i < n; i++ {
		r := rules[i]
		anyReqIf := false
		for _, t := range r.reqIf {
			anyReqIf = vOr(anyReqIf, specIsSet(t, n, set))
		}
		anyReqIfNot := false
		for _, t := range r.reqIfNot {
			anyReqIfNot = vOr(anyReqIfNot, specIsSet(t, n, set))
		}
		anyConflict := false
		for _, t := range r.conflicts {
			anyConflict = vOr(anyConflict, specIsSet(t, n, set))
		}
		unsetOK := vAnd(vAnd(vNot(r.required), vNot(anyReqIf)), vOr(len(r.reqIfNot) == 0, anyReqIfNot))
		setOK := vNot(anyConflict)
		ok = vAnd(ok, vIteBool(set[i], setOK, unsetOK))
	}
	return ok
}

func VerifC03_Presence() {
	n, maxLen := 2, 1
	if verifTier() > 0 {
		n = 2 + nondetChoice("n3", 2)
		if n == 2 {
			maxLen = 2
		}
	}
	o, rules := verifBuildRuleObject(n, maxLen, n == 2)
	supplied := make([]bool, n)
	vals := make([]int64, n)
	raw := map[string]any{}
	for i := 0; i < n; i++ {
		supplied[i] = nondetBool(verifPropNames[i] + ".supplied")
		if supplied[i] {
			vals[i] = nondetInt64(verifPropNames[i] + ".value")
			raw[verifPropNames[i]] = vals[i]
		}
	}
	set := make([]bool, n)
	noDisabledInUse := true
	for i := 0; i < n; i++ {
		set[i] = supplied[i] || rules[i].hasDefault
		if set[i] {
			noDisabledInUse = vAnd(noDisabledInUse, vNot(rules[i].disabled))
		}
	}
	accept := vAnd(noDisabledInUse, specPresence(n, rules, set))
	// (iteration-order independence of these operations is C12's obligation)
	got, err := o.Unserialize(raw)
	verifAllMapOrders(false)
	verifAssert("C03/presence/unserialize-accepts-iff-rules-hold", vIff(err == nil, accept))
	if err == nil {
		m := got.(map[string]any)
		for i := 0; i < n; i++ {
			v, has := m[verifPropNames[i]]
			verifAssert("C03/presence/result-has-exactly-set-properties", has == set[i])
			if has {
				want := int64(7)
				if supplied[i] {
					want = vals[i] // a supplied value is never overridden by the default
				}
				verifAssert("C03/presence/result-value", v.(int64) == want)
			}
		}
	} else {
		verifAssert("C03/presence/rejection-is-constraint-error", verifIsConstraintError(err))
	}
	verifObserve("accepted", err == nil)
	verifReach("C03/presence/end")
}

// Validate and Serialize apply the same presence rules to native values (no defaulting, no disabled clause)
func VerifC03_PresenceNative() {
	n, maxLen := 2, 1
	if verifTier() > 0 {
		maxLen = 2
	}
	o, rules := verifBuildRuleObject(n, maxLen, false)
	set := make([]bool, n)
	native := map[string]any{}
	for i := 0; i < n; i++ {
		set[i] = nondetBool(verifPropNames[i] + ".present")
		if set[i] {
			native[verifPropNames[i]] = nondetInt64(verifPropNames[i] + ".value")
		}
	}
	accept := specPresence(n, rules, set)
	verr := o.Validate(native)
	verifAssert("C03/native/validate-accepts-iff-rules-hold", vIff(verr == nil, accept))
	ser, serr := o.Serialize(native)
	verifAssert("C03/native/serialize-accepts-iff-rules-hold", vIff(serr == nil, accept))
	if serr == nil {
		verifAssert("C03/native/serialize-keeps-values", verifDeepEqual(ser, native))
	}
	verifObserve("accepted", verr == nil)
	verifReach("C03/native/end")
}

// undeclared and non-string keys are rejected, on every entry point
func VerifC03_Keys() {
	o := NewObjectSchema("K", map[string]*PropertySchema{
		"a": NewPropertySchema(NewIntSchema(nil, nil, nil), nil, false, nil, nil, nil, nil, nil),
		"b": NewPropertySchema(NewIntSchema(verifOptInt64("bmin"), nil, nil), nil, false, nil, nil, nil, nil, nil),
	})
	shape := nondetChoice("shape", 6)
	a, b := nondetInt64("a"), nondetInt64("b")
	var raw any
	bad := false
	hasB := false
	switch shape {
	case 0:
		raw = map[string]any{"a": a}
	case 1:
		raw, hasB = map[string]any{"a": a, "b": b}, true
	case 2:
		raw, bad = map[string]any{"a": a, "zz": b}, true
	case 3:
		raw, bad = map[any]any{"a": a, int64(5): b}, true
	case 4:
		raw, hasB = map[any]any{"a": a, "b": b}, true
	case 5:
		raw, bad = map[any]any{nil: a}, true
	}
	bOK := true
	if hasB {
		bmin := o.PropertiesValue["b"].TypeValue.(*IntSchema).MinValue
		if bmin != nil {
			bOK = b >= *bmin
		}
	}
	_, err := o.Unserialize(raw)
	verifAssert("C03/keys/unserialize-accepts-iff-declared-string-keys-and-types", vIff(err == nil, vAnd(!bad, bOK)))
	if sm, ok := raw.(map[string]any); ok {
		verr := o.Validate(sm)
		verifAssert("C03/keys/validate-same", vIff(verr == nil, vAnd(!bad, bOK)))
		_, serr := o.Serialize(sm)
		verifAssert("C03/keys/serialize-same", vIff(serr == nil, vAnd(!bad, bOK)))
	}
	verifObserve("accepted", err == nil)
	verifReach("C03/keys/end")
}

// a lone non-map value is accepted only as shorthand for the single property of a one-property object
func VerifC03_Shorthand() {
	nProps := 1 + nondetChoice("nprops", 2)
	min := verifOptInt64("min")
	props := map[string]*PropertySchema{
		"only": NewPropertySchema(NewIntSchema(min, nil, nil), nil, true, nil, nil, nil, nil, nil),
	}
	if nProps == 2 {
		props["other"] = NewPropertySchema(NewIntSchema(nil, nil, nil), nil, false, nil, nil, nil, nil, nil)
	}
	disabled := nondetBool("disabled")
	if disabled {
		props["only"].Disable("not available")
	}
	o := NewObjectSchema("S", props)
	v := nondetInt64("v")
	got, err := o.Unserialize(v)
	inRange := true
	if min != nil {
		inRange = v >= *min
	}
	// the shorthand is the single property supplied: a disabled property is not accepted this way either
	verifAssert("C03/shorthand/accepted-iff-single-property-accepts", vIff(err == nil, vAnd(vAnd(nProps == 1, inRange), !disabled)))
	_, merr := o.Unserialize(map[string]any{"only": v})
	verifAssert("C03/shorthand/same-verdict-as-the-mapping-form", vImplies(nProps == 1, vIff(err == nil, merr == nil)))
	if err == nil {
		m := got.(map[string]any)
		verifAssert("C03/shorthand/result", len(m) == 1 && m["only"].(int64) == v)
	}
	verifObserve("accepted", err == nil)
	verifReach("C03/shorthand/end")
}

// a one-of value is routed solely by its discriminator, which is passed on or stripped per the inlining flag
func VerifC03_OneOfDispatch() {
	inlined := nondetBool("inlined")
	xmin, ymax := verifOptInt64("xmin"), verifOptInt64("ymax")
	mk := func(id string, t Type) *ObjectSchema {
		props := map[string]*PropertySchema{
			"v": NewPropertySchema(t, nil, true, nil, nil, nil, nil, nil),
			// members carry presence rules of their own: w conflicts with v2, v2 is required if w is set
			"w":  NewPropertySchema(NewIntSchema(nil, nil, nil), nil, false, nil, nil, []string{"v2"}, nil, nil),
			"v2": NewPropertySchema(NewIntSchema(nil, nil, nil), nil, false, nil, nil, nil, nil, nil),
			"z":  NewPropertySchema(NewIntSchema(nil, nil, nil), nil, false, []string{"w"}, nil, nil, nil, nil),
		}
		if inlined {
			props["d"] = NewPropertySchema(NewStringSchema(nil, nil, nil), nil, true, nil, nil, nil, nil, nil)
		}
		return NewObjectSchema(id, props)
	}
	s := NewOneOfStringSchema[any](map[string]Object{
		"x": mk("X", NewIntSchema(xmin, nil, nil)),
		"y": mk("Y", NewIntSchema(nil, ymax, nil)),
	}, "d", inlined)
	d := nondetStringFrom("d", "x", "y", "z")
	hasD := nondetBool("hasD")
	v := nondetInt64("v")
	raw := map[string]any{"v": v}
	if hasD {
		raw["d"] = d
	}
	hasW, hasV2, hasZ := nondetBool("hasW"), nondetBool("hasV2"), nondetBool("hasZ")
	if hasW {
		raw["w"] = int64(1)
	}
	if hasV2 {
		raw["v2"] = int64(2)
	}
	if hasZ {
		raw["z"] = int64(3)
	}
	rulesOK := !(hasW && hasV2) && !(hasW && !hasZ)
	xOK, yOK := true, true
	if xmin != nil {
		xOK = v >= *xmin
	}
	if ymax != nil {
		yOK = v <= *ymax
	}
	accept := vAnd(vAnd(hasD, rulesOK), vOr(vAnd(d == "x", xOK), vAnd(d == "y", yOK)))
	got, err := s.Unserialize(raw)
	verifAssert("C03/oneof/accepted-iff-selected-member-accepts", vIff(err == nil, accept))
	if err == nil {
		m := got.(map[string]any)
		verifAssert("C03/oneof/result-keeps-discriminator", m["d"].(string) == d)
		verifAssert("C03/oneof/result-value", m["v"].(int64) == v)
		verifAssert("C03/oneof/validate-accepts-result", s.Validate(got) == nil)
	}
	// native dispatch
	nat := map[string]any{"v": v}
	if hasD {
		nat["d"] = d
	}
	if hasW {
		nat["w"] = int64(1)
	}
	if hasV2 {
		nat["v2"] = int64(2)
	}
	if hasZ {
		nat["z"] = int64(3)
	}
	verr := s.Validate(nat)
	verifAssert("C03/oneof/validate-accepted-iff-selected-member-accepts", vIff(verr == nil, accept))
	_, serr := s.Serialize(nat)
	verifAssert("C03/oneof/serialize-accepted-iff-selected-member-accepts", vIff(serr == nil, accept))
	verifAssert("C03/oneof/argument-not-modified", len(nat) == len(raw))
	verifObserve("accepted", err == nil)
	verifReach("C03/oneof/end")
}

type verifInner struct {
	A int64 `json:"a"`
	B int64 `json:"b"`
}
type verifOuter struct {
	In verifInner `json:"in"`
}

// struct-mapped sub-object: the property's own default wins key by key; member defaults only fill what it leaves open
func VerifC03_SubObjectDefaults() {
	innerHasADefault := nondetBool("innerA")
	outerDefault := nondetChoice("outerDefault", 3) // 0 none, 1 {"a":7}, 2 {"a":7,"b":8}
	var aDef *string
	if innerHasADefault {
		aDef = verifStrPtr("1")
	}
	inner := NewStructMappedObjectSchema[verifInner]("Inner", map[string]*PropertySchema{
		"a": NewPropertySchema(NewIntSchema(nil, nil, nil), nil, false, nil, nil, nil, aDef, nil),
		"b": NewPropertySchema(NewIntSchema(nil, nil, nil), nil, false, nil, nil, nil, verifStrPtr("2"), nil),
	})
	var oDef *string
	switch outerDefault {
	case 1:
		oDef = verifStrPtr(`{"a":7}`)
	case 2:
		oDef = verifStrPtr(`{"a":7,"b":8}`)
	}
	outer := NewStructMappedObjectSchema[verifOuter]("Outer", map[string]*PropertySchema{
		"in": NewPropertySchema(inner, nil, false, nil, nil, nil, oDef, nil),
	})
	supplied := nondetBool("supplied")
	raw := map[string]any{}
	sa := nondetInt64("sa")
	if supplied {
		raw["in"] = map[string]any{"a": sa}
	}
	calls := 1 + nondetChoice("calls", 2)
	var got any
	var err error
	for c := 0; c < calls; c++ {
		got, err = outer.Unserialize(raw)
	}
	verifAssert("C03/subdefaults/accepted", err == nil)
	if err != nil {
		return
	}
	res := got.(verifOuter)
	var wantA, wantB int64
	switch {
	case supplied:
		wantA, wantB = sa, 2
	case outerDefault == 1:
		wantA, wantB = 7, 2
	case outerDefault == 2:
		wantA, wantB = 7, 8
	default:
		wantB = 2
		if innerHasADefault {
			wantA = 1
		}
	}
	verifKnown("C03/subobject-defaults-override", !supplied && outerDefault != 0)
	verifAssert("C03/subdefaults/outer-default-wins-a", res.In.A == wantA)
	verifAssert("C03/subdefaults/outer-default-wins-b", res.In.B == wantB)
	verifObserve("res", res)
	verifReach("C03/subdefaults/end")
}

// members declared under the zero value of the key type (0, "") are ordinary members: Unserialize, Validate and
// Serialize dispatch to them alike; a missing discriminator is still rejected
func VerifC03_OneOfZeroKey() {
	intKeys := nondetBool("intKeys")
	vmin := verifOptInt64("vmin")
	member := func(id string) *ObjectSchema {
		return NewObjectSchema(id, map[string]*PropertySchema{"v": NewPropertySchema(NewIntSchema(vmin, nil, nil), nil, true, nil, nil, nil, nil, nil)})
	}
	var s Type
	raw := map[string]any{"v": nondetInt64("v")}
	hasD := nondetBool("hasD")
	zero := nondetBool("zeroKey")
	if intKeys {
		s = NewOneOfIntSchema[any](map[int64]Object{0: member("Zero"), 1: member("One")}, "d", false)
		if hasD {
			if zero {
				raw["d"] = int64(0)
			} else {
				raw["d"] = int64(1)
			}
		}
	} else {
		s = NewOneOfStringSchema[any](map[string]Object{"": member("Empty"), "a": member("A")}, "d", false)
		if hasD {
			if zero {
				raw["d"] = ""
			} else {
				raw["d"] = "a"
			}
		}
	}
	v := raw["v"].(int64)
	inRange := true
	if vmin != nil {
		inRange = v >= *vmin
	}
	u, err := s.Unserialize(verifClone(raw))
	verifAssert("C03/zerokey/unserialize-accepts-iff-discriminator-present-and-member-accepts", vIff(err == nil, vAnd(hasD, inRange)))
	if err == nil {
		verifAssert("C03/zerokey/result-validates", s.Validate(u) == nil)
		_, serr := s.Serialize(u)
		verifAssert("C03/zerokey/result-serializes", serr == nil)
	}
	// native map values go through the same dispatch
	verr := s.Validate(verifClone(raw))
	verifAssert("C03/zerokey/validate-accepts-iff-discriminator-present-and-member-accepts", vIff(verr == nil, vAnd(hasD, inRange)))
	verifObserve("accepted", err == nil)
	verifReach("C03/zerokey/end")
}

func init() { verifRegister("VerifC03_OneOfZeroKey", VerifC03_OneOfZeroKey) }

// a key supplied with an explicit nil is a supplied property: its type must accept the value (an integer does not
// accept nil), and a declared default neither replaces it nor rescues it
func VerifC03_ExplicitNil() {
	hasDefault := nondetBool("hasDefault")
	var def *string
	if hasDefault {
		def = verifStrPtr("5")
	}
	o := NewObjectSchema("N", map[string]*PropertySchema{
		"n": NewPropertySchema(NewIntSchema(nil, nil, nil), nil, false, nil, nil, nil, def, nil),
		"m": NewPropertySchema(NewIntSchema(nil, nil, nil), nil, false, nil, nil, nil, nil, nil),
	})
	anyKeys := nondetBool("anyKeys")
	var raw any = map[string]any{"n": nil, "m": nondetInt64("m")}
	if anyKeys {
		raw = map[any]any{"n": nil, "m": nondetInt64("m2")}
	}
	_, err := o.Unserialize(raw)
	verifAssert("C03/nil/supplied-nil-is-rejected-by-the-integer-type", err != nil)
	// the absent key, for comparison, takes the default or stays absent
	got, err2 := o.Unserialize(map[string]any{"m": int64(1)})
	verifAssert("C03/nil/absent-key-accepted", err2 == nil)
	if err2 == nil {
		v, has := got.(map[string]any)["n"]
		verifAssert("C03/nil/absent-key-gets-default-iff-declared", has == hasDefault && (!has || v.(int64) == 5))
	}
	verifReach("C03/nil/end")
}

func init() { verifRegister("VerifC03_ExplicitNil", VerifC03_ExplicitNil) }

// struct-mapped object with a non-pointer treat-empty-as-default field that other properties' rules refer to:
// an empty value is absence for every rule, in Unserialize, Validate and Serialize alike
type verifC03EAD struct {
	Name  string  `json:"name"`
	Alias *string `json:"alias"`
	Other *int64  `json:"other"`
}

func init() { verifRegister("VerifC03_EmptyAsDefaultStruct", VerifC03_EmptyAsDefaultStruct) }

func VerifC03_EmptyAsDefaultStruct() {
	o := NewStructMappedObjectSchema[verifC03EAD]("D", map[string]*PropertySchema{
		"name":  NewPropertySchema(NewStringSchema(nil, nil, nil), nil, false, nil, nil, nil, nil, nil).TreatEmptyAsDefaultValue(),
		"alias": NewPropertySchema(NewStringSchema(nil, nil, nil), nil, false, nil, nil, []string{"name"}, nil, nil),
		"other": NewPropertySchema(NewIntSchema(nil, nil, nil), nil, false, []string{"name"}, nil, nil, nil, nil),
	})
	name := nondetStringFrom("name", "", "n")
	hasAlias, hasOther := nondetBool("hasAlias"), nondetBool("hasOther")
	nameSet := name != ""
	ok := !(hasAlias && nameSet) && (!nameSet || hasOther)
	op := nondetChoice("op", 3)
	var err error
	if op == 0 {
		raw := map[string]any{}
		if nondetBool("nameKey") || nameSet {
			raw["name"] = name
		}
		if hasAlias {
			raw["alias"] = "al"
		}
		if hasOther {
			raw["other"] = nondetInt64("other")
		}
		_, err = o.Unserialize(raw)
	} else {
		v := verifC03EAD{Name: name}
		if hasAlias {
			al := "al"
			v.Alias = &al
		}
		if hasOther {
			ot := nondetInt64("other")
			v.Other = &ot
		}
		if op == 1 {
			err = o.Validate(v)
		} else {
			_, err = o.Serialize(v)
		}
	}
	verifAssert("C03/ead-struct/accepted-iff-rules-hold-with-empty-as-absent", (err == nil) == ok)
	verifObserve("accepted", err == nil)
	verifReach("C03/ead-struct/end")
}
