package schema

import (
	"fmt"
	"regexp"
)

// C17 — a rejection names the offending element: exactly one fault is planted into an otherwise valid input and
// the error must be a constraint error whose path leads from the root to the faulty element.

func init() {
	verifRegister("VerifC17_ListObject", VerifC17_ListObject)
	verifRegister("VerifC17_OneOfNested", VerifC17_OneOfNested)
	verifRegister("VerifC17_Validate", VerifC17_Validate)
}

const (
	faultNone = iota
	faultBelowMin
	faultAboveMax
	faultNotInEnum
	faultWrongTypeInt
	faultWrongTypeEnum
	faultUndeclaredKey
	faultMissingRequired
	faultWrongTypeString
	faultCount
)

func verifPathIs(err error, want ...string) bool {
	var path []string
	path = verifErrPath(err)
	return verifIsConstraintError(err) && verifSamePath(path, want...)
}

func VerifC17_ListObject() {
	min, max := nondetInt64("min"), nondetInt64("max")
	verifAssume(min <= max)
	item := NewObjectSchema("I", map[string]*PropertySchema{
		"a": NewPropertySchema(NewIntSchema(&min, &max, nil), nil, true, nil, nil, nil, nil, nil),
		"b": NewPropertySchema(NewMapSchema(NewStringSchema(nil, nil, nil), NewIntEnumSchema(map[int64]*DisplayValue{1: nil, 2: nil}, nil), nil, nil), nil, false, nil, nil, nil, nil, nil),
		"s": NewPropertySchema(NewStringSchema(nil, nil, nil), nil, false, nil, nil, nil, nil, nil),
	})
	l := NewListSchema(item, nil, nil)
	n := 1 + nondetChoice("len", 2)
	at := nondetChoice("at", n) // index of the faulty element
	fault := nondetChoice("fault", faultCount)
	raw := make([]any, n)
	for i := 0; i < n; i++ {
		a := nondetInt64(verifNm("a", i))
		verifAssume(vAnd(a >= min, a <= max))
		e := nondetInt64(verifNm("e", i))
		verifAssume(vOr(e == 1, e == 2))
		raw[i] = map[string]any{"a": a, "b": map[string]any{"k": e}, "s": "x"}
	}
	idx := fmt.Sprintf("[%d]", at)
	m := raw[at].(map[string]any)
	var want []string
	switch fault {
	case faultBelowMin:
		bad := nondetInt64("bad")
		verifAssume(bad < min)
		m["a"] = bad
		want = []string{idx, "a"}
	case faultAboveMax:
		bad := nondetInt64("bad")
		verifAssume(bad > max)
		m["a"] = bad
		want = []string{idx, "a"}
	case faultNotInEnum:
		bad := nondetInt64("bad")
		verifAssume(vAnd(bad != 1, bad != 2))
		m["b"] = map[string]any{"k": bad}
		want = []string{idx, "b", "[k]"}
	case faultWrongTypeInt:
		m["a"] = []any{}
		want = []string{idx, "a"}
	case faultWrongTypeEnum:
		m["b"] = map[string]any{"k": []any{}}
		want = []string{idx, "b", "[k]"}
	case faultUndeclaredKey:
		m["zz"] = int64(1)
		want = []string{idx}
	case faultMissingRequired:
		delete(m, "a")
		want = []string{idx, "a"}
	case faultWrongTypeString:
		m["s"] = []any{}
		want = []string{idx, "s"}
	}
	_, err := l.Unserialize(raw)
	if fault == faultNone {
		verifAssert("C17/list/valid-input-accepted", err == nil)
	} else {
		verifAssert("C17/list/fault-rejected", err != nil)
		if err != nil {
			verifAssert("C17/list/error-is-constraint-error", verifIsConstraintError(err))
			if fault == faultUndeclaredKey {
				// the path must lead at least to the object holding the undeclared key
				verifAssert("C17/list/path-leads-to-element", vOr(verifPathIs(err, want...), verifPathIs(err, idx, "zz")))
			} else {
				verifAssert("C17/list/path-leads-to-element", verifPathIs(err, want...))
			}
		}
	}
	verifObserve("rejected", err != nil)
	verifReach("C17/list/end")
}

func VerifC17_OneOfNested() {
	min := nondetInt64("min")
	member := NewObjectSchema("M", map[string]*PropertySchema{
		"v": NewPropertySchema(NewIntSchema(&min, nil, nil), nil, true, nil, nil, nil, nil, nil),
		"l": NewPropertySchema(NewListSchema(NewFloatSchema(nil, nil, nil), nil, nil), nil, false, nil, nil, nil, nil, nil),
	})
	o := NewObjectSchema("O", map[string]*PropertySchema{
		"o": NewPropertySchema(NewOneOfStringSchema[any](map[string]Object{"k": member}, "d", false), nil, true, nil, nil, nil, nil, nil),
	})
	v := nondetInt64("v")
	verifAssume(v >= min)
	inner := map[string]any{"d": "k", "v": v, "l": []any{nondetFloat64("f0"), nondetFloat64("f1")}}
	raw := map[string]any{"o": inner}
	fault := nondetChoice("fault", 6)
	var want []string
	switch fault {
	case 1:
		bad := nondetInt64("bad")
		verifAssume(bad < min)
		inner["v"] = bad
		want = []string{"o", "v"}
	case 2:
		inner["v"] = map[string]any{}
		want = []string{"o", "v"}
	case 3:
		inner["l"] = []any{nondetFloat64("f0"), "notanumber"}
		want = []string{"o", "l", "[1]"}
	case 4:
		delete(inner, "v")
		want = []string{"o", "v"}
	case 5:
		inner["zz"] = int64(1)
		want = []string{"o"}
	}
	_, err := o.Unserialize(raw)
	if fault == 0 {
		verifAssert("C17/oneof/valid-input-accepted", err == nil)
	} else {
		verifAssert("C17/oneof/fault-rejected", err != nil)
		if err != nil {
			verifAssert("C17/oneof/error-is-constraint-error", verifIsConstraintError(err))
			if fault == 5 {
				verifAssert("C17/oneof/path-leads-to-element", vOr(verifPathIs(err, want...), verifPathIs(err, "o", "zz")))
			} else {
				verifAssert("C17/oneof/path-leads-to-element", verifPathIs(err, want...))
			}
		}
	}
	verifObserve("rejected", err != nil)
	verifReach("C17/oneof/end")
}

// the same for Validate on native values
var verifZero int64

func VerifC17_Validate() {
	min := nondetInt64("min")
	item := NewObjectSchema("I", map[string]*PropertySchema{
		"a": NewPropertySchema(NewIntSchema(&min, nil, nil), nil, true, nil, nil, nil, nil, nil),
		"m": NewPropertySchema(NewMapSchema(NewStringSchema(nil, nil, nil), NewIntSchema(&min, nil, nil), nil, nil), nil, false, nil, nil, nil, nil, nil),
		"n": NewPropertySchema(NewMapSchema(NewIntSchema(&verifZero, nil, nil), NewIntSchema(&min, nil, nil), nil, nil), nil, false, nil, nil, nil, nil, nil),
	})
	l := NewListSchema(item, nil, nil)
	a0, a1 := nondetInt64("a0"), nondetInt64("a1")
	verifAssume(vAnd(a0 >= min, a1 >= min))
	e0 := map[string]any{"a": a0, "m": map[string]int64{"k": a0}, "n": map[int64]int64{7: a0}}
	e1 := map[string]any{"a": a1}
	native := []map[string]any{e0, e1}
	fault := nondetChoice("fault", 7)
	var want []string
	bad := nondetInt64("bad")
	switch fault {
	case 5: // a value of the int-keyed map
		verifAssume(bad < min)
		e0["n"] = map[int64]int64{7: bad}
		want = []string{"[0]", "n", "[7]"}
	case 6: // a key of the int-keyed map
		e0["n"] = map[int64]int64{-3: a0}
		want = []string{"[0]", "n", "{-3}"}
	case 1:
		verifAssume(bad < min)
		e1["a"] = bad
		want = []string{"[1]", "a"}
	case 2:
		verifAssume(bad < min)
		e0["m"] = map[string]int64{"k": bad}
		want = []string{"[0]", "m", "[k]"}
	case 3:
		delete(e1, "a")
		want = []string{"[1]", "a"}
	case 4:
		e0["a"] = "str"
		want = []string{"[0]", "a"}
	}
	err := l.Validate(native)
	if fault == 0 {
		verifAssert("C17/validate/valid-value-accepted", err == nil)
	} else {
		verifAssert("C17/validate/fault-rejected", err != nil)
		if err != nil {
			verifAssert("C17/validate/path-leads-to-element", verifPathIs(err, want...))
		}
	}
	verifObserve("rejected", err != nil)
	verifReach("C17/validate/end")
}

// presence rules: each kind of rule (required, required_if, required_if_not with one and with two alternatives,
// conflicts) violated exactly once inside a nested object; the path leads to the property that carries the rule
func VerifC17_PresenceRules() {
	str := func() Type { return NewStringSchema(nil, nil, nil) }
	auth := NewObjectSchema("Auth", map[string]*PropertySchema{
		"user":     NewPropertySchema(str(), nil, true, nil, nil, nil, nil, nil),
		"token":    NewPropertySchema(str(), nil, false, nil, []string{"password"}, nil, nil, nil),
		"password": NewPropertySchema(str(), nil, false, nil, nil, nil, nil, nil),
		"host":     NewPropertySchema(str(), nil, false, nil, nil, nil, nil, nil),
		"port":     NewPropertySchema(NewIntSchema(nil, nil, nil), nil, false, []string{"host"}, nil, nil, nil, nil),
		"socket":   NewPropertySchema(str(), nil, false, nil, nil, []string{"host"}, nil, nil),
		"key":      NewPropertySchema(str(), nil, false, nil, []string{"cert", "ca"}, nil, nil, nil),
		"cert":     NewPropertySchema(str(), nil, false, nil, nil, nil, nil, nil),
		"ca":       NewPropertySchema(str(), nil, false, nil, nil, nil, nil, nil),
	})
	root := NewObjectSchema("Root", map[string]*PropertySchema{
		"auth": NewPropertySchema(auth, nil, true, nil, nil, nil, nil, nil),
	})
	// a valid value: every rule satisfied
	a := map[string]any{"user": "u", "token": "t", "cert": "c", "port": nondetInt64("port")}
	fault := nondetChoice("fault", 6)
	var want []string
	switch fault {
	case 1: // required
		delete(a, "user")
		want = []string{"auth", "user"}
	case 2: // required_if: host is set, port is not
		delete(a, "port")
		a["host"] = "h"
		want = []string{"auth", "port"}
	case 3: // required_if_not with one alternative: neither token nor password
		delete(a, "token")
		want = []string{"auth", "token"}
	case 4: // required_if_not with two alternatives: none of key, cert, ca
		delete(a, "cert")
		want = []string{"auth", "key"}
	case 5: // conflicts: socket next to host
		a["host"] = "h"
		a["socket"] = "s"
		want = []string{"auth", "socket"}
	}
	raw := map[string]any{"auth": a}
	validate := nondetBool("validate")
	var err error
	if validate {
		err = root.Validate(raw)
	} else {
		_, err = root.Unserialize(raw)
	}
	if fault == 0 {
		verifAssert("C17/presence/valid-value-accepted", err == nil)
	} else {
		verifAssert("C17/presence/fault-rejected", err != nil)
		if err != nil {
			verifAssert("C17/presence/path-leads-to-the-property-whose-rule-is-violated", verifPathIs(err, want...))
		}
	}
	verifObserve("rejected", err != nil)
	verifReach("C17/presence/end")
}

func init() { verifRegister("VerifC17_PresenceRules", VerifC17_PresenceRules) }

// Deep nesting: map -> list -> reference -> object inside a scope, next to an any-typed property, a string with
// length bounds and a pattern, a bounded float, a bool, a bounded list and a one-of; one fault at a time, through
// Unserialize (raw decoder shapes) and through Validate (the values Unserialize produces). Segments that only
// name the chosen one-of member ("{oneof[k]}") are not part of the path the property talks about and are dropped
// before comparing.
func init() { verifRegister("VerifC17_Deep", VerifC17_Deep) }

func verifPathIsModuloOneOf(err error, want ...string) bool {
	if !verifIsConstraintError(err) {
		return false
	}
	var path []string
	for _, s := range verifErrPath(err) {
		if len(s) > 7 && s[:7] == "{oneof[" {
			continue
		}
		path = append(path, s)
	}
	return verifSamePath(path, want...)
}

var verifOne, verifTwo, verifFour int64 = 1, 2, 4

func VerifC17_Deep() {
	min := nondetInt64("min")
	fmin := nondetFloat64("fmin")
	verifAssume(fmin == fmin)
	leaf := NewObjectSchema("Leaf", map[string]*PropertySchema{
		"n": NewPropertySchema(NewIntSchema(&min, nil, nil), nil, true, nil, nil, nil, nil, nil),
		"e": NewPropertySchema(NewStringEnumSchema(map[string]*DisplayValue{"x": nil, "y": nil}), nil, false, nil, nil, nil, nil, nil),
	})
	member := NewObjectSchema("M", map[string]*PropertySchema{
		"v": NewPropertySchema(NewIntSchema(&min, nil, nil), nil, true, nil, nil, nil, nil, nil),
		"w": NewPropertySchema(NewListSchema(NewIntSchema(&min, nil, nil), nil, nil), nil, false, nil, nil, nil, nil, nil),
	})
	root := NewObjectSchema("Root", map[string]*PropertySchema{
		"items": NewPropertySchema(NewMapSchema(NewStringSchema(&verifOne, nil, nil), NewListSchema(NewRefSchema("Leaf", nil), nil, nil), nil, nil), nil, false, nil, nil, nil, nil, nil),
		"any":   NewPropertySchema(NewAnySchema(), nil, false, nil, nil, nil, nil, nil),
		"name":  NewPropertySchema(NewStringSchema(&verifTwo, &verifFour, regexp.MustCompile("^[a-z]+$")), nil, false, nil, nil, nil, nil, nil),
		"ratio": NewPropertySchema(NewFloatSchema(&fmin, nil, nil), nil, false, nil, nil, nil, nil, nil),
		"flag":  NewPropertySchema(NewBoolSchema(), nil, false, nil, nil, nil, nil, nil),
		"tags":  NewPropertySchema(NewListSchema(NewStringSchema(nil, nil, nil), &verifOne, &verifTwo), nil, false, nil, nil, nil, nil, nil),
		"one":   NewPropertySchema(NewOneOfStringSchema[any](map[string]Object{"k": member}, "d", false), nil, false, nil, nil, nil, nil, nil),
	})
	s := NewScopeSchema(root, leaf)
	n0, n1, v, w0 := nondetInt64("n0"), nondetInt64("n1"), nondetInt64("v"), nondetInt64("w0")
	verifAssume(vAnd(vAnd(n0 >= min, n1 >= min), vAnd(v >= min, w0 >= min)))
	ratio := nondetFloat64("ratio")
	verifAssume(ratio >= fmin)
	bad := nondetInt64("bad")
	verifAssume(bad < min)
	fbad := nondetFloat64("fbad")
	verifAssume(vOr(fbad < fmin, fbad != fbad))
	fault := nondetChoice("fault", 24)
	validate := nondetBool("validate")
	var want []string
	var err error
	if !validate {
		l0 := map[string]any{"n": n0, "e": "x"}
		l1 := map[string]any{"n": n1}
		leaves := []any{l0, l1}
		items := map[string]any{"k": leaves}
		anyv := []any{int64(1), map[string]any{"a": int64(2)}}
		tags := []any{"t"}
		one := map[string]any{"d": "k", "v": v, "w": []any{w0}}
		raw := map[string]any{"items": items, "any": anyv, "name": "abc", "ratio": ratio, "flag": true, "tags": tags, "one": one}
		switch fault {
		case 1:
			l1["n"] = bad
			want = []string{"items", "[k]", "[1]", "n"}
		case 2:
			l0["e"] = "z"
			want = []string{"items", "[k]", "[0]", "e"}
		case 3: // a key the key schema rejects
			delete(items, "k")
			items[""] = leaves
			want = []string{"items", "{}"}
		case 4:
			raw["name"] = "a"
			want = []string{"name"}
		case 5:
			raw["name"] = "abcde"
			want = []string{"name"}
		case 6:
			raw["name"] = "aB"
			want = []string{"name"}
		case 7:
			raw["ratio"] = fbad
			want = []string{"ratio"}
		case 8:
			raw["flag"] = []any{}
			want = []string{"flag"}
		case 9:
			raw["tags"] = []any{}
			want = []string{"tags"}
		case 10:
			raw["tags"] = []any{"a", "b", "c"}
			want = []string{"tags"}
		case 11:
			raw["tags"] = []any{"a", []any{}}
			want = []string{"tags", "[1]"}
		case 12: // a type the any schema does not support, inside a list
			raw["any"] = []any{int64(1), verifStructOther{X: 1}}
			want = []string{"any", "[1]"}
		case 13: // ... and inside a map inside the list
			raw["any"] = []any{map[string]any{"a": verifStructOther{X: 1}}}
			want = []string{"any", "[0]", "[a]"}
		case 14: // a lone value where a two-property object is expected
			leaves[0] = "str"
			want = []string{"items", "[k]", "[0]"}
		case 15:
			delete(l1, "n")
			want = []string{"items", "[k]", "[1]", "n"}
		case 16:
			one["v"] = bad
			want = []string{"one", "v"}
		case 17:
			one["w"] = []any{w0, bad}
			want = []string{"one", "w", "[1]"}
		case 18:
			delete(one, "v")
			want = []string{"one", "v"}
		case 19:
			raw["items"] = "str"
			want = []string{"items"}
		case 20:
			items["k"] = "str"
			want = []string{"items", "[k]"}
		case 21:
			one["d"] = "nope"
			want = []string{"one"}
		case 22:
			delete(one, "d")
			want = []string{"one"}
		case 23:
			raw["ratio"] = "notanumber"
			want = []string{"ratio"}
		}
		_, err = s.Unserialize(raw)
	} else {
		// the shapes Unserialize returns for this scope (checked by the valid case below and by the native replay)
		l0 := map[string]any{"n": n0, "e": "x"}
		l1 := map[string]any{"n": n1}
		leaves := []map[string]any{l0, l1}
		items := map[string][]map[string]any{"k": leaves}
		anyv := []any{int64(1), map[any]any{"a": int64(2)}}
		one := map[string]any{"d": "k", "v": v, "w": []int64{w0}}
		val := map[string]any{"items": items, "any": anyv, "name": "abc", "ratio": ratio, "flag": true, "tags": []string{"t"}, "one": one}
		switch fault {
		case 1:
			l1["n"] = bad
			want = []string{"items", "[k]", "[1]", "n"}
		case 2:
			l0["e"] = "z"
			want = []string{"items", "[k]", "[0]", "e"}
		case 3:
			delete(items, "k")
			items[""] = leaves
			want = []string{"items", "{}"}
		case 4:
			val["name"] = "a"
			want = []string{"name"}
		case 5:
			val["name"] = "abcde"
			want = []string{"name"}
		case 6:
			val["name"] = "aB"
			want = []string{"name"}
		case 7:
			val["ratio"] = fbad
			want = []string{"ratio"}
		case 8:
			val["flag"] = []any{}
			want = []string{"flag"}
		case 9:
			val["tags"] = []string{}
			want = []string{"tags"}
		case 10:
			val["tags"] = []string{"a", "b", "c"}
			want = []string{"tags"}
		case 11:
			val["one"] = "str"
			want = []string{"one"}
		case 12:
			val["any"] = []any{int64(1), verifStructOther{X: 1}}
			want = []string{"any", "[1]"}
		case 13:
			val["any"] = []any{map[any]any{"a": verifStructOther{X: 1}}}
			want = []string{"any", "[0]", "[a]"}
		case 14:
			l1["n"] = "str"
			want = []string{"items", "[k]", "[1]", "n"}
		case 15:
			delete(l1, "n")
			want = []string{"items", "[k]", "[1]", "n"}
		case 16:
			one["v"] = bad
			want = []string{"one", "v"}
		case 17:
			one["w"] = []int64{w0, bad}
			want = []string{"one", "w", "[1]"}
		case 18:
			delete(one, "v")
			want = []string{"one", "v"}
		case 19:
			val["items"] = "str"
			want = []string{"items"}
		case 20:
			val["name"] = int64(5)
			want = []string{"name"}
		case 21:
			one["d"] = "nope"
			want = []string{"one"}
		case 22:
			delete(one, "d")
			want = []string{"one"}
		case 23:
			val["ratio"] = "notanumber"
			want = []string{"ratio"}
		}
		err = s.Validate(val)
	}
	if fault == 0 {
		verifAssert("C17/deep/valid-value-accepted", err == nil)
	} else {
		op := "unserialize"
		if validate {
			op = "validate"
		}
		verifAssert("C17/deep/fault-rejected/"+op+fmt.Sprintf("/%d", fault), err != nil)
		if err != nil {
			verifAssert("C17/deep/path-leads-to-element/"+op+fmt.Sprintf("/%d", fault), verifPathIsModuloOneOf(err, want...))
		}
	}
	verifObserve("rejected", err != nil)
	verifObserve("validate", validate)
	verifReach("C17/deep/end")
}

// struct-mapped objects: the same faults planted into native Go structs (Validate) and into the raw maps they are
// unserialized from; a struct-mapped one-of member, a list of structs and a nested struct
type verifC17Outer struct {
	Inner verifStructA   `json:"inner"`
	List  []verifStructA `json:"list"`
	One   any            `json:"one"`
	Name  string         `json:"name"`
}

func init() { verifRegister("VerifC17_Structs", VerifC17_Structs) }

func VerifC17_Structs() {
	min := nondetInt64("min")
	mkInner := func() *ObjectSchema {
		return NewStructMappedObjectSchema[verifStructA]("Inner", map[string]*PropertySchema{
			"a": NewPropertySchema(NewIntSchema(&min, nil, nil), nil, true, nil, nil, nil, nil, nil),
			"b": NewPropertySchema(NewStringSchema(&verifOne, &verifTwo, nil), nil, false, nil, nil, nil, nil, nil),
		})
	}
	outer := NewStructMappedObjectSchema[verifC17Outer]("Outer", map[string]*PropertySchema{
		"inner": NewPropertySchema(mkInner(), nil, true, nil, nil, nil, nil, nil),
		"list":  NewPropertySchema(NewListSchema(mkInner(), nil, &verifTwo), nil, false, nil, nil, nil, nil, nil),
		"one":   NewPropertySchema(NewOneOfStringSchema[any](map[string]Object{"k": mkInner()}, "d", false), nil, false, nil, nil, nil, nil, nil),
		"name":  NewPropertySchema(NewStringSchema(&verifTwo, nil, nil), nil, false, nil, nil, nil, nil, nil),
	})
	a0, a1, a2, a3 := nondetInt64("a0"), nondetInt64("a1"), nondetInt64("a2"), nondetInt64("a3")
	verifAssume(vAnd(vAnd(a0 >= min, a1 >= min), vAnd(a2 >= min, a3 >= min)))
	bad := nondetInt64("bad")
	verifAssume(bad < min)
	fault := nondetChoice("fault", 9)
	validate := nondetBool("validate")
	var want []string
	var err error
	if validate {
		v := verifC17Outer{
			Inner: verifStructA{A: a0, B: "x"},
			List:  []verifStructA{{A: a1, B: "y"}, {A: a2, B: "z"}},
			One:   verifStructA{A: a3, B: "w"},
			Name:  "nm",
		}
		switch fault {
		case 1:
			v.Inner.A = bad
			want = []string{"inner", "a"}
		case 2:
			v.List[1].A = bad
			want = []string{"list", "[1]", "a"}
		case 3:
			v.One = verifStructA{A: bad, B: "w"}
			want = []string{"one", "a"}
		case 4:
			v.Inner.B = "toolong"
			want = []string{"inner", "b"}
		case 5:
			v.List = append(v.List, verifStructA{A: a1, B: "y"})
			want = []string{"list"}
		case 6:
			v.Name = "n"
			want = []string{"name"}
		case 7:
			v.List[0].B = "toolong"
			want = []string{"list", "[0]", "b"}
		case 8:
			v.One = verifStructA{A: a3, B: "toolong"}
			want = []string{"one", "b"}
		}
		err = outer.Validate(v)
	} else {
		inner := map[string]any{"a": a0, "b": "x"}
		l0 := map[string]any{"a": a1, "b": "y"}
		l1 := map[string]any{"a": a2, "b": "z"}
		one := map[string]any{"d": "k", "a": a3, "b": "w"}
		raw := map[string]any{"inner": inner, "list": []any{l0, l1}, "one": one, "name": "nm"}
		switch fault {
		case 1:
			inner["a"] = bad
			want = []string{"inner", "a"}
		case 2:
			l1["a"] = bad
			want = []string{"list", "[1]", "a"}
		case 3:
			one["a"] = bad
			want = []string{"one", "a"}
		case 4:
			inner["b"] = "toolong"
			want = []string{"inner", "b"}
		case 5:
			raw["list"] = []any{l0, l1, l0}
			want = []string{"list"}
		case 6:
			raw["name"] = "n"
			want = []string{"name"}
		case 7:
			l0["b"] = "toolong"
			want = []string{"list", "[0]", "b"}
		case 8:
			delete(one, "a")
			want = []string{"one", "a"}
		}
		_, err = outer.Unserialize(raw)
	}
	op := "unserialize"
	if validate {
		op = "validate"
	}
	if fault == 0 {
		verifAssert("C17/structs/valid-value-accepted/"+op, err == nil)
	} else {
		verifAssert("C17/structs/fault-rejected/"+op+fmt.Sprintf("/%d", fault), err != nil)
		if err != nil {
			verifAssert("C17/structs/path-leads-to-element/"+op+fmt.Sprintf("/%d", fault), verifPathIsModuloOneOf(err, want...))
		}
	}
	verifObserve("rejected", err != nil)
	verifObserve("validate", validate)
	verifReach("C17/structs/end")
}
