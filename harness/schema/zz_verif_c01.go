package schema

import (
	"github.com/fxamacker/cbor/v2"
)

// C01 — Serialize and Unserialize are mutual inverses, in memory and over the CBOR wire.

func init() {
	verifRegister("VerifC01_Scalars", VerifC01_Scalars)
	verifRegister("VerifC01_List", VerifC01_List)
	verifRegister("VerifC01_Map", VerifC01_Map)
	verifRegister("VerifC01_Object", VerifC01_Object)
	verifRegister("VerifC01_StructObject", VerifC01_StructObject)
	verifRegister("VerifC01_OneOf", VerifC01_OneOf)
	verifRegister("VerifC01_Any", VerifC01_Any)
	verifRegister("VerifC01_ScopeRef", VerifC01_ScopeRef)
	verifRegister("VerifC01_TypedEntryPoints", VerifC01_TypedEntryPoints)
	verifRegister("VerifC01_EmptyAsDefault", VerifC01_EmptyAsDefault)
}

// verifCBORModel is the CBOR encode/decode round trip into `any`, as ATP transports payloads, written as a
// normalisation function: non-negative integers come back as uint64, negative ones as int64, floats as float64,
// every map as map[any]any, every list as []any.
func verifCBORModel(v any) any {
	switch x := v.(type) {
	case nil:
		return nil
	case int64:
		if x >= 0 {
			return uint64(x)
		}
		return x
	case int:
		if x >= 0 {
			return uint64(x)
		}
		return int64(x)
	case int32:
		if x >= 0 {
			return uint64(x)
		}
		return int64(x)
	case int16:
		if x >= 0 {
			return uint64(x)
		}
		return int64(x)
	case int8:
		if x >= 0 {
			return uint64(x)
		}
		return int64(x)
	case uint64:
		return x
	case uint:
		return uint64(x)
	case uint32:
		return uint64(x)
	case uint16:
		return uint64(x)
	case uint8:
		return uint64(x)
	case float64:
		return x
	case float32:
		return float64(x)
	case string:
		return x
	case bool:
		return x
	case []any:
		out := make([]any, len(x))
		for i := range x {
			out[i] = verifCBORModel(x[i])
		}
		return out
	case map[string]any:
		out := make(map[any]any, len(x))
		for k, e := range x {
			out[k] = verifCBORModel(e)
		}
		return out
	case map[any]any:
		out := make(map[any]any, len(x))
		for k, e := range x {
			out[verifCBORModel(k)] = verifCBORModel(e)
		}
		return out
	}
	panic("verifCBORModel: not a wire value")
}

// verifCBOR returns the model; natively it also runs the real library and records whether they agree.
func verifCBOR(v any) any {
	m := verifCBORModel(v)
	if !verifIsSymbolicEngine() {
		var real any
		b, err := cbor.Marshal(v)
		if err == nil {
			err = cbor.Unmarshal(b, &real)
		}
		verifNativeAssert("stub/cbor-model-matches-library", err == nil && verifDeepEqual(real, m))
	}
	return m
}

// verifIsWire: only the types a serialized form may contain.
func verifIsWire(v any) bool {
	switch x := v.(type) {
	case int64, float64, string, bool:
		return true
	case []any:
		for _, e := range x {
			if !verifIsWire(e) {
				return false
			}
		}
		return true
	case map[string]any:
		for _, e := range x {
			if !verifIsWire(e) {
				return false
			}
		}
		return true
	case map[any]any:
		for k, e := range x {
			if !verifIsWire(k) || !verifIsWire(e) {
				return false
			}
		}
		return true
	}
	return false
}

// verifRoundTrip states the property for one schema and one raw input.
func verifRoundTrip(p string, s Type, raw any) {
	u, err := s.Unserialize(raw)
	if err != nil {
		verifCover(p + "/rejected")
		return
	}
	verifCover(p + "/accepted")
	verifAssert(p+"/result-validates", s.Validate(u) == nil)
	w, e := s.Serialize(u)
	verifAssert(p+"/result-serializes", e == nil)
	if e != nil {
		return
	}
	verifAssert(p+"/wire-types-only", verifIsWire(w))
	u2, e2 := s.Unserialize(w)
	verifAssert(p+"/unserialize-of-serialized-accepted", e2 == nil)
	if e2 == nil {
		verifAssert(p+"/unserialize-after-serialize-is-identity", verifDeepEqual(u2, u))
		w2, e3 := s.Serialize(u2)
		verifAssert(p+"/serialize-idempotent", e3 == nil && verifDeepEqual(w2, w))
	}
	c := verifCBOR(w)
	u3, e4 := s.Unserialize(c)
	verifAssert(p+"/cbor-unserialize-accepted", e4 == nil)
	if e4 == nil {
		verifAssert(p+"/cbor-unserialize-is-identity", verifDeepEqual(u3, u))
		w3, e5 := s.Serialize(u3)
		verifAssert(p+"/cbor-serialize-idempotent", e5 == nil && verifDeepEqual(w3, w))
	}
	verifObserve(p+".u", u)
	verifObserve(p+".w", w)
}

func VerifC01_Scalars() {
	kind := nondetChoice("kind", 6)
	rep := nondetChoice("rep", repCount)
	raw, _, _, _ := verifRawNumber("raw", rep)
	var s Type
	switch kind {
	case 0:
		min, max := verifOptInt64("min"), verifOptInt64("max")
		s = NewIntSchema(min, max, nil)
	case 1:
		min, max := verifOptFloat64("min"), verifOptFloat64("max")
		s = NewFloatSchema(min, max, nil)
	case 2:
		s = NewBoolSchema()
	case 3:
		a, b := nondetInt64("a"), nondetInt64("b")
		s = NewIntEnumSchema(map[int64]*DisplayValue{a: nil, b: nil}, nil)
	case 4:
		min, max := verifOptInt64("min"), verifOptInt64("max")
		s = NewStringSchema(min, max, nil)
		if rep == repFloat64 || rep == repFloat32 {
			raw = nondetStringLen("rawstr", 1000) // formatted floats have no symbolic model
		}
		if rep == repBool {
			// strings with multi-byte characters (bool is not a string representation anyway)
			raw = nondetStringFrom("rawmb", "", "a", "é", "éé", "héé", "日本", "aaaa")
		}
	case 5:
		s = NewStringEnumSchema(map[string]*DisplayValue{"a": nil, "12": nil, "-3": nil})
		raw = nondetStringFrom("rawenum", "a", "12", "-3", "b", "")
		if rep == repInt64 {
			raw = nondetInt64("rawenumint")
		}
	}
	verifRoundTrip("C01/scalar", s, raw)
	verifReach("C01/scalar/end")
}

func verifRawSmall(name string, rep3 int) any {
	switch rep3 {
	case 0:
		return nondetInt64(name)
	case 1:
		return nondetUint64(name)
	}
	return nondetFloat64(name)
}

func VerifC01_List() {
	n := nondetChoice("len", 3)
	if verifTier() > 0 {
		n = nondetChoice("lenT", 4)
	}
	imin := verifOptInt64("imin")
	lmax := verifOptInt64("lmax")
	l := NewListSchema(NewIntSchema(imin, nil, nil), nil, lmax)
	raw := make([]any, n)
	for i := 0; i < n; i++ {
		raw[i] = verifRawSmall(verifNm("e", i), nondetChoice(verifNm("rep", i), 3))
	}
	verifRoundTrip("C01/list", l, raw)
	verifReach("C01/list/end")
}

func VerifC01_Map() {
	variant := nondetChoice("variant", 3)
	n := nondetChoice("len", 3)
	var s Type
	var raw any
	switch variant {
	case 0: // int keys, raw map[any]any with int64/uint64 keys
		s = NewMapSchema(NewIntSchema(nil, nil, nil), NewStringSchema(nil, nil, nil), nil, nil)
		m := map[any]any{}
		var k0 int64
		for i := 0; i < n; i++ {
			k := nondetInt64(verifNm("k", i))
			if i == 0 {
				k0 = k
			} else {
				verifAssume(k != k0)
			}
			m[k] = nondetStringFrom(verifNm("v", i), "x", "y", "")
		}
		raw = m
	case 1: // string keys, raw map[string]any
		s = NewMapSchema(NewStringSchema(nil, nil, nil), NewIntSchema(verifOptInt64("vmin"), nil, nil), nil, nil)
		m := map[string]any{}
		keys := [2]string{"a", "b"}
		for i := 0; i < n; i++ {
			m[keys[i]] = verifRawSmall(verifNm("v", i), nondetChoice(verifNm("rep", i), 3))
		}
		raw = m
	case 2: // string keys, raw map[any]any
		s = NewMapSchema(NewStringEnumSchema(map[string]*DisplayValue{"a": nil, "b": nil}), NewFloatSchema(nil, nil, nil), nil, nil)
		m := map[any]any{}
		keys := [2]string{"a", "b"}
		for i := 0; i < n; i++ {
			m[keys[i]] = verifRawSmall(verifNm("v", i), nondetChoice(verifNm("rep", i), 3))
		}
		raw = m
	}
	verifRoundTrip("C01/map", s, raw)
	verifReach("C01/map/end")
}

func verifStrPtr(s string) *string { return &s }

func VerifC01_Object() {
	o := NewObjectSchema("O", map[string]*PropertySchema{
		"a": NewPropertySchema(NewIntSchema(verifOptInt64("amin"), nil, nil), nil, true, nil, nil, nil, nil, nil),
		"b": NewPropertySchema(NewStringSchema(verifOptInt64("bmin"), nil, nil), nil, false, nil, nil, nil, verifStrPtr(`"dflt"`), nil),
		"c": NewPropertySchema(NewListSchema(NewIntSchema(nil, nil, nil), nil, nil), nil, false, nil, nil, nil, nil, nil),
	})
	anyKeys := nondetBool("anyKeys")
	hasA, hasB, hasC := nondetBool("hasA"), nondetBool("hasB"), nondetBool("hasC")
	m := map[string]any{}
	if hasA {
		m["a"] = verifRawSmall("a", nondetChoice("arep", 3))
	}
	if hasB {
		m["b"] = nondetStringFrom("b", "x", "", "dflt", "éé")
	}
	if hasC {
		m["c"] = []any{nondetInt64("c0")}
	}
	var raw any = m
	if anyKeys {
		am := map[any]any{}
		for k, v := range m {
			am[k] = v
		}
		raw = am
	}
	verifRoundTrip("C01/object", o, raw)
	verifReach("C01/object/end")
}

type verifStructB struct {
	A int64   `json:"a"`
	B *string `json:"b"`
	C []int64 `json:"c"`
}

func VerifC01_StructObject() {
	ptr := nondetBool("ptr")
	props := map[string]*PropertySchema{
		"a": NewPropertySchema(NewIntSchema(verifOptInt64("amin"), nil, nil), nil, true, nil, nil, nil, nil, nil),
		"b": NewPropertySchema(NewStringSchema(nil, nil, nil), nil, false, nil, nil, nil, nil, nil),
		"c": NewPropertySchema(NewListSchema(NewIntSchema(nil, nil, nil), nil, nil), nil, false, nil, nil, nil, nil, nil),
	}
	var o *ObjectSchema
	if ptr {
		o = NewStructMappedObjectSchema[*verifStructB]("S", props)
	} else {
		o = NewStructMappedObjectSchema[verifStructB]("S", props)
	}
	hasB, hasC := nondetBool("hasB"), nondetBool("hasC")
	m := map[string]any{"a": verifRawSmall("a", nondetChoice("arep", 3))}
	if hasB {
		m["b"] = nondetStringFrom("b", "x", "")
	}
	if hasC {
		m["c"] = []any{nondetInt64("c0")}
	}
	verifRoundTrip("C01/struct", o, m)
	verifReach("C01/struct/end")
}

func VerifC01_OneOf() {
	inlined := nondetBool("inlined")
	intKeys := nondetBool("intKeys")
	mk := func(id string) *ObjectSchema {
		props := map[string]*PropertySchema{
			"p": NewPropertySchema(NewIntSchema(nil, nil, nil), nil, false, nil, nil, nil, nil, nil),
		}
		if inlined {
			if intKeys {
				props["d"] = NewPropertySchema(NewIntSchema(nil, nil, nil), nil, true, nil, nil, nil, nil, nil)
			} else {
				props["d"] = NewPropertySchema(NewStringSchema(nil, nil, nil), nil, true, nil, nil, nil, nil, nil)
			}
		}
		return NewObjectSchema(id, props)
	}
	var s Type
	m := map[string]any{}
	if nondetBool("hasP") {
		m["p"] = nondetInt64("p")
	}
	if intKeys {
		s = NewOneOfIntSchema[any](map[int64]Object{1: mk("X"), 2: mk("Y")}, "d", inlined)
		m["d"] = verifRawSmall("d", nondetChoice("drep", 3))
	} else {
		s = NewOneOfStringSchema[any](map[string]Object{"x": mk("X"), "y": mk("Y")}, "d", inlined)
		m["d"] = nondetStringFrom("d", "x", "y", "z")
	}
	verifRoundTrip("C01/oneof", s, m)
	verifReach("C01/oneof/end")
}

func VerifC01_Any() {
	shape := nondetChoice("shape", 6)
	var raw any
	switch shape {
	case 0:
		raw = verifRawSmall("v", nondetChoice("rep", 3))
	case 1:
		raw = nondetStringFrom("s", "a", "")
	case 2:
		raw = nondetBool("b")
	case 3:
		raw = []any{nondetInt64("l0"), nondetInt64("l1")}
	case 4:
		raw = map[string]any{"k": nondetInt64("m0"), "l": []any{nondetFloat64("m1")}}
	case 5:
		raw = map[any]any{int64(1): nondetUint64("m0"), int64(2): "x"}
	}
	verifRoundTrip("C01/any", NewAnySchema(), raw)
	verifReach("C01/any/end")
}

func VerifC01_ScopeRef() {
	s := NewScopeSchema(
		NewObjectSchema("A", map[string]*PropertySchema{
			"v":    NewPropertySchema(NewIntSchema(verifOptInt64("vmin"), nil, nil), nil, true, nil, nil, nil, nil, nil),
			"next": NewPropertySchema(NewRefSchema("A", nil), nil, false, nil, nil, nil, nil, nil),
			"b":    NewPropertySchema(NewRefSchema("B", nil), nil, false, nil, nil, nil, nil, nil),
		}),
		NewObjectSchema("B", map[string]*PropertySchema{
			"f": NewPropertySchema(NewFloatSchema(nil, nil, nil), nil, false, nil, nil, nil, nil, nil),
		}),
	)
	depth := nondetChoice("depth", 3)
	var build func(d int) map[string]any
	build = func(d int) map[string]any {
		m := map[string]any{"v": nondetInt64(verifNm("v", d))}
		if d < depth {
			m["next"] = build(d + 1)
		} else if nondetBool("hasB") {
			m["b"] = map[any]any{"f": nondetFloat64("f")}
		}
		return m
	}
	verifRoundTrip("C01/scope", s, build(0))
	verifReach("C01/scope/end")
}

// the typed entry points return the same results as the untyped ones
func VerifC01_TypedEntryPoints() {
	kind := nondetChoice("kind", 5)
	switch kind {
	case 0:
		s := NewIntSchema(verifOptInt64("min"), verifOptInt64("max"), nil)
		raw, _, _, _ := verifRawNumber("raw", nondetChoice("rep", repCount))
		u, err := s.Unserialize(raw)
		ut, errt := s.UnserializeType(raw)
		verifAssert("C01/typed/int-unserialize-same-verdict", (err == nil) == (errt == nil))
		if err == nil && errt == nil {
			verifAssert("C01/typed/int-unserialize-same-value", u.(int64) == ut)
			verifAssert("C01/typed/int-validate-same", (s.Validate(u) == nil) == (s.ValidateType(ut) == nil))
			w, e := s.Serialize(u)
			wt, et := s.SerializeType(ut)
			verifAssert("C01/typed/int-serialize-same", (e == nil) == (et == nil) && verifDeepEqual(w, wt))
		}
	case 1:
		s := NewFloatSchema(verifOptFloat64("min"), verifOptFloat64("max"), nil)
		raw, _, _, _ := verifRawNumber("raw", nondetChoice("rep", repCount))
		u, err := s.Unserialize(raw)
		ut, errt := s.UnserializeType(raw)
		verifAssert("C01/typed/float-unserialize-same-verdict", (err == nil) == (errt == nil))
		if err == nil && errt == nil {
			verifAssert("C01/typed/float-unserialize-same-value", verifDeepEqual(u, ut))
			w, e := s.Serialize(u)
			wt, et := s.SerializeType(ut)
			verifAssert("C01/typed/float-serialize-same", (e == nil) == (et == nil) && verifDeepEqual(w, wt))
		}
	case 2:
		s := NewTypedStringEnumSchema[verifNamedString](map[verifNamedString]*DisplayValue{"a": nil, "b": nil})
		raw := nondetStringFrom("raw", "a", "b", "c")
		u, err := s.Unserialize(raw)
		ut, errt := s.UnserializeType(raw)
		verifAssert("C01/typed/enum-unserialize-same-verdict", (err == nil) == (errt == nil))
		if err == nil && errt == nil {
			verifAssert("C01/typed/enum-unserialize-same-value", string(u.(verifNamedString)) == ut)
			w, e := s.Serialize(u)
			verifAssert("C01/typed/enum-serializes", e == nil && w.(string) == raw)
		}
	case 3:
		s := NewTypedListSchema[int64](NewIntSchema(verifOptInt64("imin"), nil, nil), nil, nil)
		raw := []any{nondetInt64("e0"), nondetUint64("e1")}
		u, err := s.Unserialize(raw)
		ut, errt := s.UnserializeType(raw)
		verifAssert("C01/typed/list-unserialize-same-verdict", (err == nil) == (errt == nil))
		if err == nil && errt == nil {
			verifAssert("C01/typed/list-unserialize-same-value", verifDeepEqual(u, ut))
			w, e := s.Serialize(u)
			wt, et := s.SerializeType(ut)
			verifAssert("C01/typed/list-serialize-same", (e == nil) == (et == nil) && verifDeepEqual(w, wt))
		}
	case 4:
		s := NewTypedObject[verifStructA]("S", map[string]*PropertySchema{
			"a": NewPropertySchema(NewIntSchema(nil, nil, nil), nil, true, nil, nil, nil, nil, nil),
			"b": NewPropertySchema(NewStringSchema(nil, nil, nil), nil, false, nil, nil, nil, nil, nil),
		})
		raw := map[string]any{"a": nondetInt64("a")}
		if nondetBool("hasB") {
			raw["b"] = "x"
		}
		u, err := s.Unserialize(raw)
		ut, errt := s.UnserializeType(raw)
		verifAssert("C01/typed/object-unserialize-same-verdict", (err == nil) == (errt == nil))
		if err == nil && errt == nil {
			verifAssert("C01/typed/object-unserialize-same-value", verifDeepEqual(u, ut))
			w, e := s.Serialize(u)
			wt, et := s.SerializeType(ut)
			verifAssert("C01/typed/object-serialize-same", (e == nil) == (et == nil) && verifDeepEqual(w, wt))
		}
	}
	verifReach("C01/typed/end")
}

type verifStructE struct {
	A int64  `json:"a"`
	S string `json:"s"`
}

// a property marked treat-empty-as-default equates its empty value with absence — and nothing else
func VerifC01_EmptyAsDefault() {
	o := NewStructMappedObjectSchema[verifStructE]("E", map[string]*PropertySchema{
		"a": NewPropertySchema(NewIntSchema(nil, nil, nil), nil, false, nil, nil, nil, nil, nil).TreatEmptyAsDefaultValue(),
		"s": NewPropertySchema(NewStringSchema(nil, nil, nil), nil, false, nil, nil, nil, nil, nil).TreatEmptyAsDefaultValue(),
	})
	raw := map[string]any{}
	hasA, hasS := nondetBool("hasA"), nondetBool("hasS")
	var a int64
	s := ""
	if hasA {
		a = nondetInt64("a")
		raw["a"] = a
	}
	if hasS {
		s = nondetStringFrom("s", "", "x")
		raw["s"] = s
	}
	u, err := o.Unserialize(raw)
	verifAssert("C01/empty/accepted", err == nil)
	if err != nil {
		return
	}
	w, e := o.Serialize(u)
	verifAssert("C01/empty/serializes", e == nil)
	if e != nil {
		return
	}
	wm := w.(map[string]any)
	_, wHasA := wm["a"]
	_, wHasS := wm["s"]
	// present on the wire exactly when non-empty
	verifAssert("C01/empty/int-present-iff-nonzero", vIff(wHasA, vAnd(hasA, a != 0)))
	verifAssert("C01/empty/string-present-iff-nonempty", vIff(wHasS, vAnd(hasS, s != "")))
	u2, e2 := o.Unserialize(w)
	verifAssert("C01/empty/roundtrip-identity", e2 == nil && verifDeepEqual(u2, u))
	verifReach("C01/empty/end")
}

type verifStructEH struct {
	Host   string `json:"host"`
	Port   int64  `json:"port"`
	Socket string `json:"socket"`
}

// a treat-empty-as-default property that other properties' presence rules refer to: its empty value is absence for
// every operation alike, so whatever Unserialize accepts also validates and serializes, and the round trip is stable
func VerifC01_EmptyAsDefaultRules() {
	o := NewStructMappedObjectSchema[verifStructEH]("EH", map[string]*PropertySchema{
		"host":   NewPropertySchema(NewStringSchema(nil, nil, nil), nil, false, nil, nil, nil, nil, nil).TreatEmptyAsDefaultValue(),
		"port":   NewPropertySchema(NewIntSchema(nil, nil, nil), nil, false, []string{"host"}, nil, nil, nil, nil).TreatEmptyAsDefaultValue(),
		"socket": NewPropertySchema(NewStringSchema(nil, nil, nil), nil, false, nil, nil, []string{"host"}, nil, nil).TreatEmptyAsDefaultValue(),
	})
	raw := map[string]any{}
	if nondetBool("hasHost") {
		raw["host"] = nondetStringFrom("host", "", "h")
	}
	if nondetBool("hasPort") {
		raw["port"] = nondetInt64("port")
	}
	if nondetBool("hasSocket") {
		raw["socket"] = nondetStringFrom("socket", "", "s")
	}
	u, err := o.Unserialize(raw)
	verifObserve("accepted", err == nil)
	if err != nil {
		verifReach("C01/emptyrules/end")
		return
	}
	verifAssert("C01/emptyrules/result-validates", o.Validate(u) == nil)
	w, e := o.Serialize(u)
	verifAssert("C01/emptyrules/result-serializes", e == nil)
	if e == nil {
		u2, e2 := o.Unserialize(w)
		verifAssert("C01/emptyrules/roundtrip-identity", e2 == nil && verifDeepEqual(u2, u))
		if e2 == nil {
			verifAssert("C01/emptyrules/roundtrip-validates", o.Validate(u2) == nil)
		}
	}
	verifReach("C01/emptyrules/end")
}

func init() { verifRegister("VerifC01_EmptyAsDefaultRules", VerifC01_EmptyAsDefaultRules) }
