package schema

// C12 — schema operations are pure: independent of map iteration order, argument-preserving, history-free.

func init() {
	verifRegister("VerifC12_OrderIndependence", VerifC12_OrderIndependence)
	verifRegister("VerifC12_ArgumentPreserved", VerifC12_ArgumentPreserved)
	verifRegister("VerifC12_HistoryFree", VerifC12_HistoryFree)
	verifRegister("VerifC12_DefaultsStable", VerifC12_DefaultsStable)
}

// verifClone deep-copies a decoder-style value tree.
func verifClone(v any) any {
	switch x := v.(type) {
	case []any:
		out := make([]any, len(x))
		for i := range x {
			out[i] = verifClone(x[i])
		}
		return out
	case map[string]any:
		out := make(map[string]any, len(x))
		for k, e := range x {
			out[k] = verifClone(e)
		}
		return out
	case map[any]any:
		out := make(map[any]any, len(x))
		for k, e := range x {
			out[k] = verifClone(e)
		}
		return out
	case []int64:
		out := make([]int64, len(x))
		copy(out, x)
		return out
	case map[string]int64:
		out := make(map[string]int64, len(x))
		for k, e := range x {
			out[k] = e
		}
		return out
	}
	return v
}

const verifNPure = 10

type verifOuterM struct {
	Sub map[string]any `json:"sub"`
}

type verifOuter2 struct {
	In  verifInner `json:"in"`
	In2 verifInner `json:"in2"`
}

// verifPureCase builds a schema (twice, identically, for the history-freedom comparison) and an argument for it.
func verifPureCase(k int, tag string) (mk func() Type, arg any) {
	amin := verifOptInt64(tag + "amin")
	switch k {
	case 0: // object with defaults and rules
		mk = func() Type {
			return NewObjectSchema("O", map[string]*PropertySchema{
				"a": NewPropertySchema(NewIntSchema(amin, nil, nil), nil, false, nil, nil, []string{"c"}, nil, nil),
				"b": NewPropertySchema(NewStringSchema(nil, nil, nil), nil, false, nil, nil, nil, verifStrPtr(`"d"`), nil),
				"c": NewPropertySchema(NewIntSchema(nil, nil, nil), nil, false, []string{"b"}, nil, nil, nil, nil),
			})
		}
		m := map[string]any{}
		if nondetBool(tag + "hasA") {
			m["a"] = nondetInt64(tag + "a")
		}
		if nondetBool(tag + "hasC") {
			m["c"] = nondetInt64(tag + "c")
		}
		if nondetBool(tag + "hasZ") {
			m["zz"] = int64(0)
		}
		arg = m
	case 1: // int-keyed map, raw keys in mixed representations
		mk = func() Type {
			return NewMapSchema(NewIntSchema(amin, nil, nil), NewIntSchema(nil, nil, nil), nil, nil)
		}
		k0, k1 := nondetInt64(tag+"k0"), nondetInt64(tag+"k1")
		verifAssume(k0 != k1)
		arg = map[any]any{k0: nondetInt64(tag + "v0"), k1: nondetInt64(tag + "v1")}
	case 2: // one-of, not inlined: the discriminator must be stripped from a copy, not from the argument
		mk = func() Type {
			return NewOneOfStringSchema[any](map[string]Object{
				"x": NewObjectSchema("X", map[string]*PropertySchema{"v": NewPropertySchema(NewIntSchema(amin, nil, nil), nil, false, nil, nil, nil, nil, nil)}),
				"y": NewObjectSchema("Y", map[string]*PropertySchema{"v": NewPropertySchema(NewIntSchema(nil, nil, nil), nil, false, nil, nil, nil, nil, nil)}),
			}, "d", false)
		}
		arg = map[string]any{"d": nondetStringFrom(tag+"d", "x", "y", "q"), "v": nondetInt64(tag + "v")}
	case 3: // any
		mk = func() Type { return NewAnySchema() }
		arg = map[string]any{"l": []any{nondetInt64(tag + "l0"), nondetUint64(tag + "l1")}, "m": map[any]any{"k": nondetFloat64(tag + "f")}}
	case 4: // list of objects
		mk = func() Type {
			return NewListSchema(NewObjectSchema("I", map[string]*PropertySchema{
				"a": NewPropertySchema(NewIntSchema(amin, nil, nil), nil, true, nil, nil, nil, nil, nil),
			}), nil, nil)
		}
		arg = []any{map[string]any{"a": nondetInt64(tag + "a0")}, map[any]any{"a": nondetInt64(tag + "a1")}}
	case 5: // struct-mapped object with a sub-object carrying defaults
		mk = func() Type {
			inner := NewStructMappedObjectSchema[verifInner]("Inner", map[string]*PropertySchema{
				"a": NewPropertySchema(NewIntSchema(amin, nil, nil), nil, false, nil, nil, nil, verifStrPtr("1"), nil),
				"b": NewPropertySchema(NewIntSchema(nil, nil, nil), nil, false, nil, nil, nil, verifStrPtr("2"), nil),
			})
			return NewStructMappedObjectSchema[verifOuter]("Outer", map[string]*PropertySchema{
				"in": NewPropertySchema(inner, nil, false, nil, nil, nil, verifStrPtr(`{"a":7}`), nil),
			})
		}
		m := map[string]any{}
		if nondetBool(tag + "hasIn") {
			m["in"] = map[string]any{"a": nondetInt64(tag + "ia")}
		}
		arg = m
	case 9: // a map-backed sub-object with two sibling properties of one defaulted object type, under a struct-mapped root
		mk = func() Type {
			leaf := NewObjectSchema("Leaf", map[string]*PropertySchema{
				"x": NewPropertySchema(NewIntSchema(amin, nil, nil), nil, false, nil, nil, nil, verifStrPtr("5"), nil),
			})
			sub := NewObjectSchema("Sub", map[string]*PropertySchema{
				"left":  NewPropertySchema(leaf, nil, false, nil, nil, nil, nil, nil),
				"right": NewPropertySchema(leaf, nil, false, nil, nil, nil, nil, nil),
			})
			return NewStructMappedObjectSchema[verifOuterM]("OuterM", map[string]*PropertySchema{
				"sub": NewPropertySchema(sub, nil, false, nil, nil, nil, nil, nil),
			})
		}
		m := map[string]any{}
		if nondetBool(tag + "hasSub") {
			m["sub"] = map[string]any{"left": map[string]any{"x": nondetInt64(tag + "lx")}}
		}
		arg = m
	case 8: // two properties of one sub-object type: one overrides a member default, its sibling does not
		mk = func() Type {
			inner := NewStructMappedObjectSchema[verifInner]("Inner", map[string]*PropertySchema{
				"a": NewPropertySchema(NewIntSchema(amin, nil, nil), nil, false, nil, nil, nil, verifStrPtr("1"), nil),
				"b": NewPropertySchema(NewIntSchema(nil, nil, nil), nil, false, nil, nil, nil, verifStrPtr("2"), nil),
			})
			return NewStructMappedObjectSchema[verifOuter2]("Outer2", map[string]*PropertySchema{
				"in":  NewPropertySchema(inner, nil, false, nil, nil, nil, verifStrPtr(`{"a":7}`), nil),
				"in2": NewPropertySchema(inner, nil, false, nil, nil, nil, nil, nil),
			})
		}
		m := map[string]any{}
		if nondetBool(tag + "hasIn") {
			m["in"] = map[string]any{"a": nondetInt64(tag + "ia")}
		}
		if nondetBool(tag + "hasIn2") {
			m["in2"] = map[string]any{"b": nondetInt64(tag + "ib")}
		}
		arg = m
	case 6: // scope with references
		mk = func() Type {
			return NewScopeSchema(NewObjectSchema("A", map[string]*PropertySchema{
				"v":    NewPropertySchema(NewIntSchema(amin, nil, nil), nil, true, nil, nil, nil, nil, nil),
				"next": NewPropertySchema(NewRefSchema("A", nil), nil, false, nil, nil, nil, nil, nil),
			}))
		}
		arg = map[string]any{"v": nondetInt64(tag + "v0"), "next": map[string]any{"v": nondetInt64(tag + "v1")}}
	case 7: // string-keyed map of enums
		mk = func() Type {
			return NewMapSchema(NewStringSchema(nil, nil, nil), NewIntEnumSchema(map[int64]*DisplayValue{1: nil, 2: nil, 3: nil}, nil), nil, nil)
		}
		arg = map[string]any{"p": nondetInt64(tag + "p"), "q": nondetInt64(tag + "q")}
	}
	return
}

// one evaluation in insertion order, one under every iteration order of every map touched: same verdict and result
func VerifC12_OrderIndependence() {
	k := nondetChoice("case", verifNPure-1) // the two-sibling family (8) multiplies the orders of five maps: history and argument checks only
	if k == 8 {
		k = 9
	}
	mk, arg := verifPureCase(k, "")
	s := mk()
	op := nondetChoice("op", 2)
	if op == 0 {
		r1, e1 := s.Unserialize(arg)
		verifAllMapOrders(true)
		r2, e2 := s.Unserialize(arg)
		verifAllMapOrders(false)
		verifAssert("C12/order/unserialize-same-verdict", (e1 == nil) == (e2 == nil))
		if e1 == nil && e2 == nil {
			verifAssert("C12/order/unserialize-same-result", verifDeepEqual(r1, r2))
		}
	} else {
		e1 := s.ValidateCompatibility(arg)
		verifAllMapOrders(true)
		e2 := s.ValidateCompatibility(arg)
		verifAllMapOrders(false)
		verifAssert("C12/order/compat-same-verdict", (e1 == nil) == (e2 == nil))
	}
	verifReach("C12/order/end")
}

// raw inputs whose keys collide after conversion: the result must not depend on which one is visited last
func VerifC12_CollidingKeys() {
	m := NewMapSchema(NewIntSchema(nil, nil, nil), NewIntSchema(nil, nil, nil), nil, nil)
	v0, v1 := nondetInt64("v0"), nondetInt64("v1")
	raw := map[any]any{int64(1): v0, "1": v1}
	r1, e1 := m.Unserialize(raw)
	verifAllMapOrders(true)
	r2, e2 := m.Unserialize(raw)
	verifAllMapOrders(false)
	verifAssert("C12/collide/same-verdict", (e1 == nil) == (e2 == nil))
	if e1 == nil && e2 == nil {
		verifAssert("C12/collide/same-result", verifDeepEqual(r1, r2))
	}
	verifReach("C12/collide/end")
}

func init() { verifRegister("VerifC12_CollidingKeys", VerifC12_CollidingKeys) }

// the four operations never modify the argument passed to them
func VerifC12_ArgumentPreserved() {
	k := nondetChoice("case", verifNPure)
	mk, arg := verifPureCase(k, "")
	s := mk()
	before := verifClone(arg)
	op := nondetChoice("op", 4)
	switch op {
	case 0:
		_, _ = s.Unserialize(arg)
		verifAssert("C12/arg/unserialize-preserves-argument", verifDeepEqual(arg, before))
	case 1:
		_ = s.ValidateCompatibility(arg)
		verifAssert("C12/arg/compat-preserves-argument", verifDeepEqual(arg, before))
	default:
		u, err := s.Unserialize(arg)
		if err != nil {
			verifReach("C12/arg/end")
			return
		}
		if _, isStruct := u.(verifOuter); isStruct {
			verifReach("C12/arg/end")
			return
		}
		ub := verifClone(u)
		if op == 2 {
			_ = s.Validate(u)
			verifAssert("C12/arg/validate-preserves-argument", verifDeepEqual(u, ub))
		} else {
			_, _ = s.Serialize(u)
			verifAssert("C12/arg/serialize-preserves-argument", verifDeepEqual(u, ub))
		}
	}
	verifReach("C12/arg/end")
}

// B(x2) after A(x1) on the same instance equals B(x2) on a freshly built identical schema
func VerifC12_HistoryFree() {
	k := nondetChoice("case", verifNPure)
	mk, x2 := verifPureCase(k, "")
	_, x1 := verifPureCase(k, "h.")
	used, fresh := mk(), mk()
	a := nondetChoice("first", 3)
	switch a {
	case 0:
		_, _ = used.Unserialize(x1)
	case 1:
		_ = used.ValidateCompatibility(x1)
	case 2:
		if u, err := used.Unserialize(x1); err == nil {
			_, _ = used.Serialize(u)
			_ = used.Validate(u)
		}
	}
	b := nondetChoice("second", 2)
	if b == 0 {
		r1, e1 := used.Unserialize(x2)
		r2, e2 := fresh.Unserialize(x2)
		verifAssert("C12/history/unserialize-same-verdict", (e1 == nil) == (e2 == nil))
		if e1 == nil && e2 == nil {
			verifAssert("C12/history/unserialize-same-result", verifDeepEqual(r1, r2))
			w1, we1 := used.Serialize(r1)
			w2, we2 := fresh.Serialize(r2)
			verifAssert("C12/history/serialize-same", (we1 == nil) == (we2 == nil) && verifDeepEqual(w1, w2))
		}
	} else {
		e1 := used.ValidateCompatibility(x2)
		e2 := fresh.ValidateCompatibility(x2)
		verifAssert("C12/history/compat-same-verdict", (e1 == nil) == (e2 == nil))
	}
	verifReach("C12/history/end")
}

// the decoded defaults an object reports do not change across calls (observable through GetDefaults)
func VerifC12_DefaultsStable() {
	mk, _ := verifPureCase(5, "")
	s := mk().(*ObjectSchema)
	d0 := verifClone(map[string]any(s.GetDefaults()))
	n := 1 + nondetChoice("calls", 2)
	for i := 0; i < n; i++ {
		m := map[string]any{}
		if nondetBool(verifNm("hasIn", i)) {
			m["in"] = map[string]any{"a": nondetInt64(verifNm("ia", i))}
		}
		_, _ = s.Unserialize(m)
	}
	verifAssert("C12/defaults/unchanged-by-calls", verifDeepEqual(map[string]any(s.GetDefaults()), d0))
	verifReach("C12/defaults/end")
}
