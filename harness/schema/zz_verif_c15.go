package schema

// C15 — compatibility checking: bounds logic of int/float/string/map, reflexivity, kind soundness, structural
// rejection, order independence, termination on recursive scopes.

func init() {
	verifRegister("VerifC15_IntBounds", VerifC15_IntBounds)
	verifRegister("VerifC15_FloatBounds", VerifC15_FloatBounds)
	verifRegister("VerifC15_StringBounds", VerifC15_StringBounds)
	verifRegister("VerifC15_MapBounds", VerifC15_MapBounds)
	verifRegister("VerifC15_Reflexive", VerifC15_Reflexive)
	verifRegister("VerifC15_KindSound", VerifC15_KindSound)
	verifRegister("VerifC15_EnumSubset", VerifC15_EnumSubset)
	verifRegister("VerifC15_StrEnumSubset", VerifC15_StrEnumSubset)
	verifRegister("VerifC15_Object", VerifC15_Object)
	verifRegister("VerifC15_Propagate", VerifC15_Propagate)
	verifRegister("VerifC15_OneOf", VerifC15_OneOf)
	verifRegister("VerifC15_Recursive", VerifC15_Recursive)
}

// specDisjointInt states directly when two integer ranges cannot overlap.
func specDisjointInt(sMin, sMax, oMin, oMax *int64) bool {
	d := false
	if sMax != nil && oMin != nil {
		d = vOr(d, *oMin > *sMax)
	}
	if sMin != nil && oMax != nil {
		d = vOr(d, *oMax < *sMin)
	}
	return d
}

func verifFourInt64() (sMin, sMax, oMin, oMax *int64) {
	sMin, sMax = verifOptInt64("sMin"), verifOptInt64("sMax")
	oMin, oMax = verifOptInt64("oMin"), verifOptInt64("oMax")
	if sMin != nil && sMax != nil {
		verifAssume(*sMin <= *sMax)
	}
	if oMin != nil && oMax != nil {
		verifAssume(*oMin <= *oMax)
	}
	return
}

func VerifC15_IntBounds() {
	sMin, sMax, oMin, oMax := verifFourInt64()
	self := NewIntSchema(sMin, sMax, nil)
	other := NewIntSchema(oMin, oMax, nil)
	err := self.ValidateCompatibility(other)
	disjoint := specDisjointInt(sMin, sMax, oMin, oMax)
	verifAssert("C15/int/reject-disjoint", vImplies(disjoint, err != nil))
	verifAssert("C15/int/accept-overlap", vImplies(vNot(disjoint), err == nil))
	verifObserve("err", err != nil)
	verifReach("C15/int/end")
}

func VerifC15_StringBounds() {
	sMin, sMax, oMin, oMax := verifFourInt64()
	self := NewStringSchema(sMin, sMax, nil)
	other := NewStringSchema(oMin, oMax, nil)
	err := self.ValidateCompatibility(other)
	disjoint := specDisjointInt(sMin, sMax, oMin, oMax)
	verifAssert("C15/string/reject-disjoint", vImplies(disjoint, err != nil))
	verifAssert("C15/string/accept-overlap", vImplies(vNot(disjoint), err == nil))
	verifObserve("err", err != nil)
	verifReach("C15/string/end")
}

func VerifC15_MapBounds() {
	sMin, sMax, oMin, oMax := verifFourInt64()
	self := NewMapSchema(NewStringSchema(nil, nil, nil), NewIntSchema(nil, nil, nil), sMin, sMax)
	other := NewMapSchema(NewStringSchema(nil, nil, nil), NewIntSchema(nil, nil, nil), oMin, oMax)
	err := self.ValidateCompatibility(other)
	disjoint := specDisjointInt(sMin, sMax, oMin, oMax)
	verifAssert("C15/map/reject-disjoint", vImplies(disjoint, err != nil))
	verifAssert("C15/map/accept-overlap", vImplies(vNot(disjoint), err == nil))
	verifObserve("err", err != nil)
	verifReach("C15/map/end")
}

func VerifC15_FloatBounds() {
	sMin, sMax := verifOptFloat64("sMin"), verifOptFloat64("sMax")
	oMin, oMax := verifOptFloat64("oMin"), verifOptFloat64("oMax")
	if sMin != nil && sMax != nil {
		verifAssume(*sMin <= *sMax)
	}
	if oMin != nil && oMax != nil {
		verifAssume(*oMin <= *oMax)
	}
	self := NewFloatSchema(sMin, sMax, nil)
	other := NewFloatSchema(oMin, oMax, nil)
	err := self.ValidateCompatibility(other)
	d := false
	if sMax != nil && oMin != nil {
		d = vOr(d, *oMin > *sMax)
	}
	if sMin != nil && oMax != nil {
		d = vOr(d, *oMax < *sMin)
	}
	verifAssert("C15/float/reject-disjoint", vImplies(d, err != nil))
	verifAssert("C15/float/accept-overlap", vImplies(vNot(d), err == nil))
	verifObserve("err", err != nil)
	verifReach("C15/float/end")
}

const verifNKinds = 12

// verifKindSchema builds one schema of base kind k; numeric options are symbolic where the kind has any.
// base returns a kind class used by the soundness oracle.
func verifKindSchema(tag string, k int) (Type, string) {
	switch k {
	case 0:
		min, max := verifOptInt64(tag+"imin"), verifOptInt64(tag+"imax")
		if min != nil && max != nil {
			verifAssume(*min <= *max)
		}
		return NewIntSchema(min, max, nil), "int"
	case 1:
		min, max := verifOptFloat64(tag+"fmin"), verifOptFloat64(tag+"fmax")
		if min != nil && max != nil {
			verifAssume(*min <= *max)
		}
		return NewFloatSchema(min, max, nil), "float"
	case 2:
		min, max := verifOptInt64(tag+"smin"), verifOptInt64(tag+"smax")
		if min != nil && max != nil {
			verifAssume(*min <= *max)
		}
		return NewStringSchema(min, max, nil), "string"
	case 3:
		return NewBoolSchema(), "bool"
	case 4:
		return NewPatternSchema(), "pattern"
	case 5:
		return NewIntEnumSchema(map[int64]*DisplayValue{65: nil, 66: nil}, nil), "intenum"
	case 6:
		return NewStringEnumSchema(map[string]*DisplayValue{"A": nil, "B": nil}), "strenum"
	case 7:
		return NewListSchema(NewIntSchema(nil, nil, nil), nil, nil), "list"
	case 8:
		return NewMapSchema(NewStringSchema(nil, nil, nil), NewIntSchema(nil, nil, nil), nil, nil), "map"
	case 9:
		return NewObjectSchema("O", map[string]*PropertySchema{
			"p": NewPropertySchema(NewIntSchema(nil, nil, nil), nil, true, nil, nil, nil, nil, nil),
		}), "object"
	case 10:
		return NewOneOfStringSchema[any](map[string]Object{
			"x": NewObjectSchema("X", map[string]*PropertySchema{"p": NewPropertySchema(NewIntSchema(nil, nil, nil), nil, false, nil, nil, nil, nil, nil)}),
		}, "d", false), "oneof"
	case 11:
		return NewAnySchema(), "any"
	}
	panic("bad kind")
}

func VerifC15_Reflexive() {
	k := nondetChoice("kind", verifNKinds)
	s, _ := verifKindSchema("", k)
	err := s.ValidateCompatibility(s)
	verifAssert("C15/reflexive", err == nil)
	verifObserve("err", err != nil)
	verifReach("C15/reflexive/end")
}

// documented acceptances between different base kinds
func specKindAccepted(consumer, producer string) bool {
	switch {
	case consumer == producer:
		return true
	case consumer == "int" && producer == "intenum":
		return true
	case consumer == "string" && producer == "strenum":
		return true
	case consumer == "any":
		// any accepts every kind whose values are maps, lists or primitives
		return producer != "pattern"
	}
	return false
}

func VerifC15_KindSound() {
	kc := nondetChoice("consumer", verifNKinds)
	kp := nondetChoice("producer", verifNKinds)
	c, cn := verifKindSchema("c.", kc)
	p, pn := verifKindSchema("p.", kp)
	verifAssume(cn != pn)
	err := c.ValidateCompatibility(p)
	if !specKindAccepted(cn, pn) {
		verifKnown("C15/enum-rune-conversion", vOr(vAnd(cn == "strenum", pn == "intenum"), vAnd(cn == "intenum", pn == "strenum")))
		verifAssert("C15/kind/different-base-kind-rejected", err != nil)
	}
	verifObserve("err", err != nil)
	verifReach("C15/kind/end")
}

func VerifC15_EnumSubset() {
	a, b := nondetInt64("a"), nondetInt64("b")
	c, d := nondetInt64("c"), nondetInt64("d")
	consumer := NewIntEnumSchema(map[int64]*DisplayValue{a: nil, b: nil}, nil)
	np := 1 + nondetChoice("nproducer", 2)
	pm := map[int64]*DisplayValue{c: nil}
	subset := vOr(c == a, c == b)
	if np == 2 {
		pm[d] = nil
		subset = vAnd(subset, vOr(d == a, d == b))
	}
	producer := NewIntEnumSchema(pm, nil)
	verifAllMapOrders(true)
	err := consumer.ValidateCompatibility(producer)
	verifAllMapOrders(false)
	verifAssert("C15/enum/outside-values-rejected", vImplies(vNot(subset), err != nil))
	verifAssert("C15/enum/subset-accepted", vImplies(subset, err == nil))
	verifObserve("err", err != nil)
	verifReach("C15/enum/end")
}

func VerifC15_StrEnumSubset() {
	consumer := NewStringEnumSchema(map[string]*DisplayValue{"a": nil, "b": nil})
	c := nondetStringFrom("c", "a", "b", "x")
	d := nondetStringFrom("d", "a", "b", "y")
	pm := map[string]*DisplayValue{verifConcretize(c): nil, verifConcretize(d): nil}
	producer := NewStringEnumSchema(pm)
	subset := vAnd(c != "x", d != "y")
	verifAllMapOrders(true)
	err := consumer.ValidateCompatibility(producer)
	verifAllMapOrders(false)
	verifAssert("C15/strenum/outside-values-rejected", vImplies(vNot(subset), err != nil))
	verifAssert("C15/strenum/subset-accepted", vImplies(subset, err == nil))
	verifObserve("err", err != nil)
	verifReach("C15/strenum/end")
}

func verifIntProp(required bool) *PropertySchema {
	return NewPropertySchema(NewIntSchema(nil, nil, nil), nil, required, nil, nil, nil, nil, nil)
}

func VerifC15_Object() {
	consumer := NewObjectSchema("O", map[string]*PropertySchema{"a": verifIntProp(true), "b": verifIntProp(false)})
	// producer: which of a, b, extra are declared; its id; id enforcement
	hasA, hasB, hasX := nondetBool("hasA"), nondetBool("hasB"), nondetBool("hasX")
	sameID := nondetBool("sameID")
	unenforced := nondetChoice("unenforced", 3) // 0 none, 1 producer, 2 consumer
	props := map[string]*PropertySchema{}
	if hasA {
		props["a"] = verifIntProp(true)
	}
	if hasB {
		props["b"] = verifIntProp(false)
	}
	if hasX {
		props["x"] = verifIntProp(false)
	}
	id := "O"
	if !sameID {
		id = "P"
	}
	var producer *ObjectSchema
	if unenforced == 1 {
		producer = NewUnenforcedIDObjectSchema(id, props)
	} else {
		producer = NewObjectSchema(id, props)
	}
	if unenforced == 2 {
		consumer = NewUnenforcedIDObjectSchema("O", consumer.PropertiesValue)
	}
	verifAllMapOrders(true)
	err := consumer.ValidateCompatibility(producer)
	verifAllMapOrders(false)
	bad := hasX || !hasA || (!sameID && unenforced == 0)
	verifAssert("C15/object/unconsumable-rejected", vImplies(bad, err != nil))
	verifAssert("C15/object/consumable-accepted", vImplies(!bad, err == nil))
	verifObserve("err", err != nil)
	verifReach("C15/object/end")
}

// an incompatibility of an element/key/value/property type propagates to the container verdict
func VerifC15_Propagate() {
	where := nondetChoice("where", 6)
	sMin, sMax, oMin, oMax := verifFourInt64()
	a, b := Type(NewIntSchema(sMin, sMax, nil)), Type(NewIntSchema(oMin, oMax, nil))
	disjoint := specDisjointInt(sMin, sMax, oMin, oMax)
	// keep away from the wrong-guard defect of the leaf comparison itself (decided by VerifC15_IntBounds)
	verifAssume(vOr(vAnd(sMin != nil, sMax != nil), vAnd(sMin == nil, sMax == nil)))
	verifAssume(vOr(vAnd(oMin != nil, oMax != nil), vAnd(oMin == nil, oMax == nil)))
	var c, p Type
	switch where {
	case 5: // behind references: two distinct scopes whose non-root objects share an id
		mk := func(leaf Type) Type {
			return NewScopeSchema(
				NewObjectSchema("Root", map[string]*PropertySchema{"b": NewPropertySchema(NewRefSchema("B", nil), nil, true, nil, nil, nil, nil, nil)}),
				NewObjectSchema("B", map[string]*PropertySchema{"f": NewPropertySchema(leaf, nil, true, nil, nil, nil, nil, nil)}),
			)
		}
		c, p = mk(a), mk(b)
	case 0:
		c, p = NewListSchema(a, nil, nil), NewListSchema(b, nil, nil)
	case 1:
		c, p = NewMapSchema(a, NewBoolSchema(), nil, nil), NewMapSchema(b, NewBoolSchema(), nil, nil)
	case 2:
		c, p = NewMapSchema(NewStringSchema(nil, nil, nil), a, nil, nil), NewMapSchema(NewStringSchema(nil, nil, nil), b, nil, nil)
	case 3:
		c = NewObjectSchema("O", map[string]*PropertySchema{"f": NewPropertySchema(a, nil, true, nil, nil, nil, nil, nil)})
		p = NewObjectSchema("O", map[string]*PropertySchema{"f": NewPropertySchema(b, nil, true, nil, nil, nil, nil, nil)})
	case 4:
		c = NewListSchema(NewListSchema(a, nil, nil), nil, nil)
		p = NewListSchema(NewListSchema(b, nil, nil), nil, nil)
	}
	err := c.ValidateCompatibility(p)
	verifAssert("C15/propagate/inner-incompatibility-rejected", vImplies(disjoint, err != nil))
	verifAssert("C15/propagate/inner-compatible-accepted", vImplies(vNot(disjoint), err == nil))
	verifObserve("err", err != nil)
	verifReach("C15/propagate/end")
}

func VerifC15_OneOf() {
	mk := func(id string) *ObjectSchema {
		return NewObjectSchema(id, map[string]*PropertySchema{"p": verifIntProp(false)})
	}
	consumer := NewOneOfStringSchema[any](map[string]Object{"x": mk("X"), "y": mk("Y")}, "d", false)
	sameField := nondetBool("sameField")
	hasX, hasY := nondetBool("hasX"), nondetBool("hasY")
	yCompatible := nondetBool("yCompatible")
	types := map[string]Object{}
	if hasX {
		types["x"] = mk("X")
	}
	if hasY {
		if yCompatible {
			types["y"] = mk("Y")
		} else {
			types["y"] = mk("Z") // different enforced ID
		}
	}
	field := "d"
	if !sameField {
		field = "e"
	}
	producer := NewOneOfStringSchema[any](types, field, false)
	verifAllMapOrders(true)
	err := consumer.ValidateCompatibility(producer)
	verifAllMapOrders(false)
	bad := !sameField || !hasX || !hasY || !yCompatible
	verifAssert("C15/oneof/unconsumable-rejected", vImplies(bad, err != nil))
	verifAssert("C15/oneof/consumable-accepted", vImplies(!bad, err == nil))
	verifObserve("err", err != nil)
	verifReach("C15/oneof/end")
}

// a self-referential scope compared with itself (and with an identical twin) must produce a verdict
func VerifC15_Recursive() {
	mk := func() *ScopeSchema {
		return NewScopeSchema(NewObjectSchema("A", map[string]*PropertySchema{
			"next": NewPropertySchema(NewRefSchema("A", nil), nil, false, nil, nil, nil, nil, nil),
			"v":    verifIntProp(false),
		}))
	}
	s := mk()
	twin := nondetBool("twin")
	verifReach("C15/recursive/built")
	verifKnown("C15/recursive-compat-no-cycle-guard", true)
	var err error
	if twin {
		err = s.ValidateCompatibility(mk())
	} else {
		err = s.ValidateCompatibility(s)
	}
	verifAssert("C15/recursive/self-compatible", err == nil)
	verifReach("C15/recursive/end")
}
