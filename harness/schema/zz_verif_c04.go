package schema

import (
	"math"
	"regexp"
)

// C04 — totality: for every well-formed schema kind and every value shape a decoder (or a Go caller) can hand over,
// Unserialize / data-mode ValidateCompatibility / Validate / Serialize return (result, error) and never panic or
// diverge. The obligation is the absence of PANIC/UNWIND outcomes; the engine reports those with a replay vector.

func init() {
	verifRegister("VerifC04_Total", VerifC04_Total)
	verifRegister("VerifC04_TotalNested", VerifC04_TotalNested)
}

type verifNamedInt int64
type verifNamedString string
type verifNamedBool bool
type verifNamedFloat float64
type verifStructA struct {
	A int64  `json:"a"`
	B string `json:"b"`
}
type verifStructOther struct{ X int64 }
type verifStructL struct {
	A int64   `json:"a"`
	L []int64 `json:"l"`
}
type verifStructSelf struct {
	V    int64            `json:"v"`
	Next *verifStructSelf `json:"next"`
}

const verifNData = 45

// verifData returns a value of shape k; leaves are symbolic where that is meaningful.
func verifData(tag string, k int, concFloat bool, concInt bool) any {
	if concFloat {
		switch k {
		case 4:
			return 1.5
		case 5:
			return float32(2.5)
		case 11:
			return verifNamedFloat(3.5)
		}
	}
	if concInt {
		switch k {
		case 1:
			return int64(7)
		case 2:
			return uint64(8)
		case 3:
			return 9
		case 8:
			return verifNamedInt(10)
		case 33:
			return uint8(11)
		}
	}
	switch k {
	case 0:
		return nil
	case 1:
		return nondetInt64(tag + "i64")
	case 2:
		return nondetUint64(tag + "u64")
	case 3:
		return nondetInt(tag + "int")
	case 4:
		return nondetFloat64(tag + "f64")
	case 5:
		return nondetFloat32(tag + "f32")
	case 6:
		return nondetBool(tag + "b")
	case 7:
		return nondetStringFrom(tag+"s", "", "a", "12", "-3", "yes", "1.5", "x", " ", "5m3s")
	case 8:
		return verifNamedInt(nondetInt64(tag + "ni"))
	case 9:
		return verifNamedString(nondetStringFrom(tag+"ns", "a", "b"))
	case 10:
		return verifNamedBool(nondetBool(tag + "nb"))
	case 11:
		return verifNamedFloat(nondetFloat64(tag + "nf"))
	case 12:
		return []any{}
	case 13:
		return []any{nondetInt64(tag + "l0")}
	case 14:
		return []int64{nondetInt64(tag + "li0"), 2}
	case 15:
		return []byte("ab")
	case 16:
		return []string{"a"}
	case 17:
		return map[string]any{}
	case 18:
		return map[string]any{"a": nondetInt64(tag + "ma")}
	case 19:
		return map[string]any{"a": nondetInt64(tag + "ma"), "b": "s", "d": "x"}
	case 20:
		return map[any]any{"a": nondetInt64(tag + "ma")}
	case 21:
		return map[any]any{int64(1): nondetInt64(tag + "m1")}
	case 22:
		return map[any]any{"a": int64(1), int64(2): int64(3)}
	case 23:
		return map[any]any{1.5: int64(1)}
	case 24:
		return map[int64]any{1: "x"}
	case 25:
		return map[any]any{nil: int64(1)}
	case 26:
		return (*verifStructA)(nil)
	case 27:
		return verifStructA{A: nondetInt64(tag + "sa"), B: "b"}
	case 28:
		return &verifStructA{A: nondetInt64(tag + "sa"), B: "b"}
	case 29:
		return verifStructOther{X: 1}
	case 30:
		return map[string]any{"d": "x", "p": nondetInt64(tag + "mp")}
	case 31:
		return map[string]any{"d": int64(1), "p": nondetInt64(tag + "mp")}
	case 32:
		return map[any]any{"d": "x", "p": int64(1)}
	case 33:
		return uint8(nondetUint8(tag + "u8"))
	case 34:
		return map[string]int64{"a": 1}
	case 35:
		return map[bool]any{true: 1}
	case 36: // a valid discriminator next to a non-string key
		return map[any]any{"d": "x", int64(7): int64(1)}
	case 37:
		return map[any]any{"d": int64(1), nil: int64(1)}
	case 38:
		return (*regexp.Regexp)(nil)
	case 39:
		return verifStructL{A: nondetInt64(tag + "la")}
	case 40: // a NaN key: present in MapKeys but never found by MapIndex
		return map[any]any{math.NaN(): int64(1)}
	case 41:
		return map[float64]any{math.NaN(): int64(1), 1.5: int64(2)}
	case 42: // typed nil pointers of the struct types the struct-mapped schemas use
		return (*verifStructA)(nil)
	case 43:
		return (*verifStructSelf)(nil)
	case 44:
		return []any{(*verifStructA)(nil), nil}
	}
	panic("bad data shape")
}

const verifNSchemas = 29

func verifTotalSchema(k int) Type {
	intP := func(req bool) *PropertySchema {
		return NewPropertySchema(NewIntSchema(nil, nil, nil), nil, req, nil, nil, nil, nil, nil)
	}
	switch k {
	case 0:
		return NewIntSchema(nil, nil, nil)
	case 1:
		return NewFloatSchema(nil, nil, nil)
	case 2:
		return NewStringSchema(nil, nil, nil)
	case 3:
		return NewBoolSchema()
	case 4:
		return NewPatternSchema()
	case 5:
		return NewIntEnumSchema(map[int64]*DisplayValue{1: nil, 2: nil}, nil)
	case 6:
		return NewStringEnumSchema(map[string]*DisplayValue{"a": nil, "b": nil})
	case 7:
		return NewTypedStringEnumSchema[verifNamedString](map[verifNamedString]*DisplayValue{"a": nil, "b": nil})
	case 8:
		return NewListSchema(NewIntSchema(nil, nil, nil), nil, nil)
	case 9:
		return NewMapSchema(NewStringSchema(nil, nil, nil), NewIntSchema(nil, nil, nil), nil, nil)
	case 10:
		return NewMapSchema(NewIntSchema(nil, nil, nil), NewAnySchema(), nil, nil)
	case 11:
		return NewObjectSchema("O", map[string]*PropertySchema{"a": intP(true), "b": NewPropertySchema(NewStringSchema(nil, nil, nil), nil, false, nil, nil, nil, nil, nil)})
	case 12:
		return NewStructMappedObjectSchema[verifStructA]("S", map[string]*PropertySchema{"a": intP(true), "b": NewPropertySchema(NewStringSchema(nil, nil, nil), nil, false, nil, nil, nil, nil, nil)})
	case 13:
		return NewStructMappedObjectSchema[*verifStructA]("S", map[string]*PropertySchema{"a": intP(true), "b": NewPropertySchema(NewStringSchema(nil, nil, nil), nil, false, nil, nil, nil, nil, nil)})
	case 14:
		return NewOneOfStringSchema[any](map[string]Object{"x": NewObjectSchema("X", map[string]*PropertySchema{"p": intP(false)})}, "d", false)
	case 15:
		return NewOneOfIntSchema[any](map[int64]Object{1: NewObjectSchema("X", map[string]*PropertySchema{"p": intP(false)})}, "d", false)
	case 16:
		return NewOneOfStringSchema[any](map[string]Object{"x": NewObjectSchema("X", map[string]*PropertySchema{
			"d": NewPropertySchema(NewStringSchema(nil, nil, nil), nil, false, nil, nil, nil, nil, nil), "p": intP(false)})}, "d", true)
	case 17:
		return NewAnySchema()
	case 18:
		// scope with a recursive reference
		return NewScopeSchema(NewObjectSchema("A", map[string]*PropertySchema{
			"a":    intP(false),
			"next": NewPropertySchema(NewRefSchema("A", nil), nil, false, nil, nil, nil, nil, nil),
		}))
	case 19:
		return NewObjectSchema("E", map[string]*PropertySchema{"a": intP(false).TreatEmptyAsDefaultValue()})
	case 20: // an object without properties
		return NewObjectSchema("Z", map[string]*PropertySchema{})
	case 21: // list of property-less objects behind a reference
		return NewScopeSchema(NewObjectSchema("R", map[string]*PropertySchema{
			"l": NewPropertySchema(NewListSchema(NewRefSchema("Z", nil), nil, nil), nil, false, nil, nil, nil, nil, nil),
		}), NewObjectSchema("Z", map[string]*PropertySchema{}))
	case 22: // struct-mapped object with a list-typed treat-empty-as-default property
		return NewStructMappedObjectSchema[verifStructL]("L", map[string]*PropertySchema{
			"a": intP(false),
			"l": NewPropertySchema(NewListSchema(NewIntSchema(nil, nil, nil), nil, nil), nil, false, nil, nil, nil, nil, nil).TreatEmptyAsDefaultValue(),
		})
	case 23: // struct-mapped object referring to itself through an optional reference
		return NewScopeSchema(NewStructMappedObjectSchema[verifStructSelf]("Self", map[string]*PropertySchema{
			"v":    intP(false),
			"next": NewPropertySchema(NewRefSchema("Self", nil), nil, false, nil, nil, nil, nil, nil),
		}))
	case 24: // object mapped to a pointer-to-struct type
		return NewStructMappedObjectSchema[*verifStructA]("PA", map[string]*PropertySchema{
			"a": intP(false),
			"b": NewPropertySchema(NewStringSchema(nil, nil, nil), nil, false, nil, nil, nil, nil, nil),
		})
	case 25: // one-property objects whose chain runs into a cycle that does not contain the first one
		return NewScopeSchema(
			NewObjectSchema("Head", map[string]*PropertySchema{"next": NewPropertySchema(NewRefSchema("Loop", nil), nil, false, nil, nil, nil, nil, nil)}),
			NewObjectSchema("Loop", map[string]*PropertySchema{"next": NewPropertySchema(NewRefSchema("Loop", nil), nil, false, nil, nil, nil, nil, nil)}),
		)
	case 26: // ... a cycle of length two behind a head
		return NewScopeSchema(
			NewObjectSchema("Head", map[string]*PropertySchema{"next": NewPropertySchema(NewRefSchema("P", nil), nil, false, nil, nil, nil, nil, nil)}),
			NewObjectSchema("P", map[string]*PropertySchema{"next": NewPropertySchema(NewRefSchema("Q", nil), nil, false, nil, nil, nil, nil, nil)}),
			NewObjectSchema("Q", map[string]*PropertySchema{"next": NewPropertySchema(NewRefSchema("P", nil), nil, false, nil, nil, nil, nil, nil)}),
		)
	case 27: // integer with units: unit strings, empty and blank strings go through the unit parser
		return NewIntSchema(nil, nil, UnitDurationSeconds)
	case 28: // float with units
		return NewFloatSchema(nil, nil, UnitBytes)
	}
	panic("bad schema kind")
}

func verifTotalOp(s Type, op int, d any) {
	switch op {
	case 0:
		res, err := s.Unserialize(d)
		verifObserve("unserialize.ok", err == nil)
		if err == nil {
			verifObserve("unserialize.res", res)
		}
	case 1:
		err := s.ValidateCompatibility(d)
		verifObserve("compat.ok", err == nil)
	case 2:
		err := s.Validate(d)
		verifObserve("validate.ok", err == nil)
	case 3:
		res, err := s.Serialize(d)
		verifObserve("serialize.ok", err == nil)
		if err == nil {
			verifObserve("serialize.res", res)
		}
	}
}

func VerifC04_Total() {
	sk := nondetChoice("schema", verifNSchemas)
	dk := nondetChoice("data", verifNData)
	op := nondetChoice("op", 4)
	s := verifTotalSchema(sk)
	// formatted floats (%f) and compiled patterns have no symbolic model: those combinations use concrete leaves
	stringy := sk == 2 || sk == 4 || sk == 6 || sk == 7 || sk == 9 || sk == 14 || sk == 16 || sk == 27 || sk == 28
	d := verifData("", dk, stringy, sk == 4)
	verifReach("C04/total/built")
	verifTotalOp(s, op, d)
	verifReach("C04/total/returned")
	// total on the next call too: an operation that returned must not leave the schema (or package-level state it
	// shares, e.g. a unit definition's lock) in a condition that makes a later call panic or block
	_, _ = s.Unserialize("1")
	verifReach("C04/total/returned-again")
}

// the same shapes one level down: as list item, map value, property value, any-typed leaf
func VerifC04_TotalNested() {
	pos := nondetChoice("pos", 5)
	dk := nondetChoice("data", verifNData)
	op := nondetChoice("op", 4)
	nInner := 4
	if verifTier() > 0 {
		nInner = 4 + verifNSchemas // thorough: every schema kind of the flat harness as the inner type
	}
	inner := nondetChoice("inner", nInner)
	var it Type
	if inner >= 4 {
		it = verifTotalSchema(inner - 4)
	}
	switch inner {
	case 0:
		it = NewIntSchema(nil, nil, nil)
	case 1:
		it = NewStringSchema(nil, nil, nil)
	case 2:
		it = NewObjectSchema("I", map[string]*PropertySchema{"a": NewPropertySchema(NewIntSchema(nil, nil, nil), nil, false, nil, nil, nil, nil, nil)})
	case 3:
		it = NewAnySchema()
	}
	sk := inner - 4
	stringy := inner == 1 || pos == 1 || sk == 2 || sk == 4 || sk == 6 || sk == 7 || sk == 9 || sk == 14 || sk == 16
	d := verifData("", dk, stringy, sk == 4)
	var s Type
	var outer any
	switch pos {
	case 0:
		s, outer = NewListSchema(it, nil, nil), []any{d}
	case 1:
		s, outer = NewMapSchema(NewStringSchema(nil, nil, nil), it, nil, nil), map[string]any{"k": d}
	case 2:
		s, outer = NewObjectSchema("O", map[string]*PropertySchema{"f": NewPropertySchema(it, nil, false, nil, nil, nil, nil, nil)}), map[string]any{"f": d}
	case 3:
		s, outer = NewMapSchema(NewIntSchema(nil, nil, nil), it, nil, nil), map[any]any{int64(1): d}
	case 4:
		s, outer = NewAnySchema(), map[any]any{"k": []any{d}}
	}
	verifReach("C04/nested/built")
	verifTotalOp(s, op, outer)
	verifReach("C04/nested/returned")
}
