package schema

import (
	"context"
	"regexp"
)

// C09 — self-description is faithful: describe, rebuild, describe is a fixed point; the rebuilt schema behaves
// like the original. The meta-schema (package initialisation, struct-mapped objects over the ~20 schema structs)
// runs through the engine's reflect model.

func init() {
	verifRegister("VerifC09_ScopeFixedPoint", VerifC09_ScopeFixedPoint)
	verifRegister("VerifC09_PluginSchema", VerifC09_PluginSchema)
}

const verifNDescribed = 11

// verifDescribedScope builds a scope featuring one family of options (numeric options symbolic) and an input for it.
func verifDescribedScope(k int) (*ScopeSchema, any) {
	p := func(t Type, required bool) *PropertySchema {
		return NewPropertySchema(t, nil, required, nil, nil, nil, nil, nil)
	}
	switch k {
	case 0: // integers and floats with bounds and units
		imin, imax := verifOptInt64("imin"), verifOptInt64("imax")
		if imin != nil && imax != nil {
			verifAssume(*imin <= *imax)
		}
		fmin, fmax := verifOptFloat64("fmin"), verifOptFloat64("fmax")
		if fmin != nil && fmax != nil {
			verifAssume(*fmin <= *fmax)
		}
		s := NewScopeSchema(NewObjectSchema("N", map[string]*PropertySchema{
			"i": p(NewIntSchema(imin, imax, UnitBytes), true),
			"f": p(NewFloatSchema(fmin, fmax, UnitDurationSeconds), false),
		}))
		return s, map[string]any{"i": nondetInt64("i"), "f": nondetFloat64("f")}
	case 1: // strings, patterns, bools
		smin, smax := verifOptInt64("smin"), verifOptInt64("smax")
		// string length bounds are sizes: non-negative, and min <= max in a well-formed schema
		if smin != nil {
			verifAssume(*smin >= 0)
		}
		if smax != nil {
			verifAssume(*smax >= 0)
		}
		if smin != nil && smax != nil {
			verifAssume(*smin <= *smax)
		}
		s := NewScopeSchema(NewObjectSchema("S", map[string]*PropertySchema{
			"s": p(NewStringSchema(smin, smax, regexp.MustCompile("^[a-z]*$")), false),
			"p": p(NewPatternSchema(), false),
			"b": p(NewBoolSchema(), false),
		}))
		return s, map[string]any{"s": nondetStringFrom("s", "", "ab", "abc", "A1"), "b": nondetBool("b")}
	case 2: // enums with display data
		nm := "first"
		s := NewScopeSchema(NewObjectSchema("E", map[string]*PropertySchema{
			"ie": p(NewIntEnumSchema(map[int64]*DisplayValue{1: NewDisplayValue(&nm, nil, nil), 2: nil}, nil), false),
			"se": p(NewStringEnumSchema(map[string]*DisplayValue{"a": NewDisplayValue(nil, nil, nil), "b": NewDisplayValue(&nm, nil, nil)}), false),
		}))
		return s, map[string]any{"ie": nondetInt64("ie"), "se": nondetStringFrom("se", "a", "b", "c")}
	case 3: // lists and maps with size bounds
		lmin, mmax := verifOptInt64("lmin"), verifOptInt64("mmax")
		if lmin != nil {
			verifAssume(*lmin >= 0)
		}
		if mmax != nil {
			verifAssume(*mmax >= 0)
		}
		s := NewScopeSchema(NewObjectSchema("C", map[string]*PropertySchema{
			"l": p(NewListSchema(NewIntSchema(nil, nil, nil), lmin, nil), false),
			"m": p(NewMapSchema(NewStringSchema(nil, nil, nil), NewFloatSchema(nil, nil, nil), nil, mmax), false),
		}))
		return s, map[string]any{"l": []any{nondetInt64("l0")}, "m": map[string]any{"k": nondetFloat64("m0")}}
	case 4: // presence rules, defaults, disabled properties
		req := nondetBool("req")
		disabled := nondetBool("disabled")
		b := NewPropertySchema(NewIntSchema(nil, nil, nil), NewDisplayValue(verifStrPtr("B"), verifStrPtr("desc"), nil), false, []string{"a"}, nil, []string{"c"}, nil, []string{"1"})
		if disabled {
			b.Disable("not now")
		}
		s := NewScopeSchema(NewObjectSchema("R", map[string]*PropertySchema{
			"a": NewPropertySchema(NewIntSchema(nil, nil, nil), nil, req, nil, nil, nil, nil, nil),
			"b": b,
			"c": NewPropertySchema(NewStringSchema(nil, nil, nil), nil, false, nil, []string{"a"}, nil, verifStrPtr(`"dflt"`), nil),
		}))
		m := map[string]any{}
		if nondetBool("hasA") {
			m["a"] = nondetInt64("a")
		}
		if nondetBool("hasB") {
			m["b"] = nondetInt64("b")
		}
		return s, m
	case 5: // one-of, inlined or not, and any
		inlined := nondetBool("inlined")
		mk := func(id string) *ObjectSchema {
			props := map[string]*PropertySchema{"v": p(NewIntSchema(nil, nil, nil), false)}
			if inlined {
				props["d"] = p(NewStringSchema(nil, nil, nil), true)
			}
			return NewObjectSchema(id, props)
		}
		s := NewScopeSchema(NewObjectSchema("O", map[string]*PropertySchema{
			"o": p(NewOneOfStringSchema[any](map[string]Object{"x": NewRefSchema("X", nil), "y": NewRefSchema("Y", nil)}, "d", inlined), false),
			"y": p(NewAnySchema(), false),
		}), mk("X"), mk("Y"))
		return s, map[string]any{"o": map[string]any{"d": nondetStringFrom("d", "x", "y", "z"), "v": nondetInt64("v")}, "y": []any{nondetInt64("y0")}}
	case 6: // recursive reference
		vmin := verifOptInt64("vmin")
		s := NewScopeSchema(NewObjectSchema("A", map[string]*PropertySchema{
			"v":    p(NewIntSchema(vmin, nil, nil), true),
			"next": p(NewRefSchema("A", nil), false),
		}))
		return s, map[string]any{"v": nondetInt64("v0"), "next": map[string]any{"v": nondetInt64("v1")}}
	case 7: // nested scope
		imin := verifOptInt64("imin")
		// the inner scope shadows the outer id A and reaches its own second object through a reference
		inner := NewScopeSchema(
			NewObjectSchema("A", map[string]*PropertySchema{
				"z":    p(NewIntSchema(imin, nil, nil), false),
				"leaf": p(NewRefSchema("Leaf", nil), false),
			}),
			NewObjectSchema("Leaf", map[string]*PropertySchema{"w": p(NewIntSchema(imin, nil, nil), true)}),
		)
		inner2 := NewScopeSchema(
			NewObjectSchema("B", map[string]*PropertySchema{"leaf": p(NewRefSchema("Leaf", nil), true)}),
			NewObjectSchema("Leaf", map[string]*PropertySchema{"w": p(NewIntSchema(imin, nil, nil), true)}),
		)
		s := NewScopeSchema(NewObjectSchema("A", map[string]*PropertySchema{
			"in":  p(inner, false),
			"ins": p(NewListSchema(inner2, nil, nil), false),
			"x":   p(NewIntSchema(nil, nil, nil), false),
		}))
		return s, map[string]any{
			"in":  map[string]any{"z": nondetInt64("z"), "leaf": map[string]any{"w": nondetInt64("w")}},
			"ins": []any{map[string]any{"leaf": map[string]any{"w": nondetInt64("w2")}}},
			"x":   nondetInt64("x"),
		}
	case 10: // collections that are nil rather than empty: an object built with a nil property map, nil enum display data
		s := NewScopeSchema(
			NewObjectSchema("Holder", map[string]*PropertySchema{"e": p(NewRefSchema("Empty", nil), false), "x": p(NewIntSchema(nil, nil, nil), false)}),
			NewObjectSchema("Empty", nil),
		)
		return s, map[string]any{"e": map[string]any{}, "x": nondetInt64("x")}
	case 9: // enums whose values all carry display data
		nm := "first"
		s := NewScopeSchema(NewObjectSchema("E", map[string]*PropertySchema{
			"ie": p(NewIntEnumSchema(map[int64]*DisplayValue{1: NewDisplayValue(&nm, nil, nil), 2: NewDisplayValue(nil, nil, nil)}, UnitBytes), false),
			"se": p(NewStringEnumSchema(map[string]*DisplayValue{"a": NewDisplayValue(nil, &nm, nil), "b": NewDisplayValue(&nm, nil, nil)}), false),
		}))
		return s, map[string]any{"ie": nondetInt64("ie"), "se": nondetStringFrom("se", "a", "b", "c")}
	case 8: // int-keyed one-of and int-keyed map
		s := NewScopeSchema(NewObjectSchema("I", map[string]*PropertySchema{
			"o": p(NewOneOfIntSchema[any](map[int64]Object{1: NewRefSchema("X", nil)}, "d", false), false),
			"m": p(NewMapSchema(NewIntSchema(nil, nil, nil), NewBoolSchema(), nil, nil), false),
		}), NewObjectSchema("X", map[string]*PropertySchema{"v": p(NewIntSchema(nil, nil, nil), false)}))
		return s, map[string]any{"o": map[string]any{"d": nondetInt64("d"), "v": int64(1)}, "m": map[any]any{nondetInt64("k"): true}}
	}
	panic("bad kind")
}

func VerifC09_ScopeFixedPoint() {
	k := nondetChoice("kind", verifNDescribed)
	s, input := verifDescribedScope(k)
	verifKnown("C09/enum-nil-display-not-describable", k == 2)
	d, err := s.SelfSerialize()
	verifAssert("C09/scope/describes-itself", err == nil)
	if err != nil {
		return
	}
	viaCBOR := nondetBool("viaCBOR")
	var desc any = d
	if viaCBOR {
		desc = verifCBOR(d)
	}
	s2, err := UnserializeScope(desc)
	verifAssert("C09/scope/description-accepted-by-meta-schema", err == nil)
	if err != nil {
		return
	}
	s2.ApplySelf()
	d2, err2 := s2.SelfSerialize()
	verifAssert("C09/scope/rebuilt-describes-itself", err2 == nil)
	verifAssert("C09/scope/describe-rebuild-describe-is-fixed-point", err2 == nil && verifDeepEqual(d, d2))
	// the rebuilt schema behaves like the original
	u1, e1 := s.Unserialize(verifClone(input))
	u2, e2 := s2.Unserialize(verifClone(input))
	verifAssert("C09/scope/same-verdict", (e1 == nil) == (e2 == nil))
	if e1 == nil && e2 == nil {
		verifAssert("C09/scope/same-result", verifDeepEqual(u1, u2))
		w1, x1 := s.Serialize(u1)
		w2, x2 := s2.Serialize(u2)
		verifAssert("C09/scope/same-serialization", (x1 == nil) == (x2 == nil) && verifDeepEqual(w1, w2))
	}
	if k != 6 { // compatibility of recursive scopes does not terminate: known finding C15/recursive-compat-no-cycle-guard
		verifAssert("C09/scope/compatible-with-rebuilt", s.ValidateCompatibility(s2) == nil && s2.ValidateCompatibility(s) == nil)
	}
	verifObserve("accepted", e1 == nil)
	verifReach("C09/scope/end")
}

// a whole plugin schema as carried in the ATP hello message, including the data schemas of its signals
func VerifC09_PluginSchema() {
	omin := verifOptInt64("omin")
	scope := func(id string, t Type) *ScopeSchema {
		return NewScopeSchema(NewObjectSchema(id, map[string]*PropertySchema{"v": NewPropertySchema(t, nil, true, nil, nil, nil, nil, nil)}))
	}
	refScope := func(id string) *ScopeSchema {
		return NewScopeSchema(
			NewObjectSchema(id, map[string]*PropertySchema{"leaf": NewPropertySchema(NewRefSchema(id+"Leaf", nil), nil, true, nil, nil, nil, nil, nil)}),
			NewObjectSchema(id+"Leaf", map[string]*PropertySchema{"v": NewPropertySchema(NewIntSchema(omin, nil, nil), nil, true, nil, nil, nil, nil, nil)}),
		)
	}
	step := NewCallableStepWithSignals[*int, map[string]any](
		"s", scope("In", NewIntSchema(verifOptInt64("imin"), nil, nil)),
		map[string]*StepOutputSchema{
			"ok":  NewStepOutputSchema(scope("Ok", NewIntSchema(omin, nil, nil)), NewDisplayValue(verifStrPtr("OK"), nil, nil), false),
			"err": NewStepOutputSchema(scope("Err", NewStringSchema(nil, nil, nil)), nil, true),
		},
		map[string]CallableSignal{
			"sig": NewCallableSignal[*int, map[string]any]("sig", scope("Sig", NewBoolSchema()), nil, func(ctx context.Context, d *int, in map[string]any) {}),
			// a signal whose data scope uses a reference, as any non-trivial scope does
			"refsig": NewCallableSignal[*int, map[string]any]("refsig", refScope("RSig"), nil, func(ctx context.Context, d *int, in map[string]any) {}),
		},
		map[string]*SignalSchema{
			"emit":    NewSignalSchema("emit", scope("Emit", NewFloatSchema(nil, nil, nil)), nil),
			"refemit": NewSignalSchema("refemit", refScope("REmit"), nil),
		},
		NewDisplayValue(verifStrPtr("Step"), nil, nil),
		func() *int { return nil },
		func(ctx context.Context, d *int, in map[string]any) (string, any) { return "ok", in },
	)
	plugin := NewCallableSchema(step)
	d, err := plugin.SelfSerialize()
	verifAssert("C09/plugin/describes-itself", err == nil)
	if err != nil {
		return
	}
	var desc any = d
	if nondetBool("viaCBOR") {
		desc = verifCBOR(d)
	}
	s2, err := UnserializeSchema(desc)
	verifAssert("C09/plugin/description-accepted", err == nil)
	if err != nil {
		return
	}
	d2, err2 := s2.SelfSerialize()
	verifAssert("C09/plugin/fixed-point", err2 == nil && verifDeepEqual(d, d2))
	st := s2.StepsValue["s"]
	verifAssert("C09/plugin/step-present", st != nil && len(st.OutputsValue) == 2 && len(st.SignalHandlersValue) == 2 && len(st.SignalEmittersValue) == 2)
	if st != nil {
		v := nondetInt64("v")
		in := map[string]any{"v": v}
		_, e1 := step.Input().Unserialize(verifClone(in))
		_, e2 := st.InputValue.Unserialize(verifClone(in))
		verifAssert("C09/plugin/input-same-verdict", (e1 == nil) == (e2 == nil))
		_, o1 := step.Outputs()["ok"].Unserialize(verifClone(in))
		_, o2 := st.OutputsValue["ok"].Unserialize(verifClone(in))
		verifAssert("C09/plugin/output-same-verdict", (o1 == nil) == (o2 == nil))
		sig := map[string]any{"v": nondetBool("sv")}
		_, g1 := step.SignalHandlers()["sig"].DataSchema().Unserialize(verifClone(sig))
		_, g2 := st.SignalHandlersValue["sig"].DataSchemaValue.Unserialize(verifClone(sig))
		verifAssert("C09/plugin/signal-same-verdict", (g1 == nil) == (g2 == nil))
		rsig := map[string]any{"leaf": map[string]any{"v": nondetInt64("rv")}}
		_, h1 := step.SignalHandlers()["refsig"].DataSchema().Unserialize(verifClone(rsig))
		_, h2 := st.SignalHandlersValue["refsig"].DataSchemaValue.Unserialize(verifClone(rsig))
		verifAssert("C09/plugin/signal-with-reference-same-verdict", (h1 == nil) == (h2 == nil))
		_, k1 := step.SignalEmitters()["refemit"].DataSchema().Unserialize(verifClone(rsig))
		_, k2 := st.SignalEmittersValue["refemit"].DataSchemaValue.Unserialize(verifClone(rsig))
		verifAssert("C09/plugin/emitted-signal-with-reference-same-verdict", (k1 == nil) == (k2 == nil))
	}
	verifReach("C09/plugin/end")
}
