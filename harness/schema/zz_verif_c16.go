package schema

import (
	"math"
)

// C16 — unit formatting and parsing are inverse; parsing never returns a wrong number.
// The whole chain runs symbolically: FormatShortInt/FormatLongInt (floating-point decomposition, %d rendering as
// digit variables, strings.TrimRight from the standard library's SSA), then ParseInt (the generated regexp is matched
// by the real engine on a digit skeleton, strconv.ParseInt on digit variables, multiplier arithmetic).

func init() {
	verifRegister("VerifC16_FormatParseShortInt", VerifC16_FormatParseShortInt)
	verifRegister("VerifC16_FormatParseLongInt", VerifC16_FormatParseLongInt)
	verifRegister("VerifC16_FormatParseHuge", VerifC16_FormatParseHuge)
	verifRegister("VerifC16_ParseAccumulate", VerifC16_ParseAccumulate)
	verifRegister("VerifC16_ParseSumOverflow", VerifC16_ParseSumOverflow)
	verifRegister("VerifC16_ParseRejects", VerifC16_ParseRejects)
	verifRegister("VerifC16_MetaNames", VerifC16_MetaNames)
	verifRegister("VerifC16_SchemaUnits", VerifC16_SchemaUnits)
}

const verifNUnits = 7

func verifUnitSet(k int) *UnitsDefinition {
	switch k {
	case 0:
		return UnitBytes
	case 1:
		return UnitDurationNanoseconds
	case 2:
		return UnitDurationSeconds
	case 3:
		return UnitCharacters
	case 4:
		return UnitPercentage
	case 5: // unit names that are prefixes of each other, odd multipliers
		return NewUnits(NewUnit("x", "xs", "ex", "exes"), map[int64]*UnitDefinition{
			7:  NewUnit("xx", "xxs", "exex", "exexes"),
			91: NewUnit("xxx", "xxxs", "exexex", "exexexes"),
		})
	case 6: // names with regexp metacharacters
		return NewUnits(NewUnit("u.", "u.s", "unit+", "unit+s"), map[int64]*UnitDefinition{
			10: NewUnit("k*", "k*s", "kilo(", "kilo(s"),
		})
	}
	panic("bad unit set")
}

func verifUnitChoice() int {
	if verifTier() > 0 {
		return nondetChoice("units", verifNUnits)
	}
	// quick tier: powers of two, sexagesimal, no multipliers, odd multipliers with prefix names
	return [4]int{0, 2, 3, 5}[nondetChoice("unitsQuick", 4)]
}

// verifQuantity returns a symbolic non-negative quantity below a window bound chosen per tier
func verifQuantity(name string) int64 {
	d := nondetInt64(name)
	bound := int64(1) << 12
	if verifTier() > 0 {
		bound = int64(1) << 20
	}
	verifAssume(vAnd(d >= 0, d < bound))
	return d
}

func VerifC16_FormatParseShortInt() {
	u := verifUnitSet(verifUnitChoice())
	data := verifQuantity("data")
	s := u.FormatShortInt(data)
	back, err := u.ParseInt(s)
	verifAssert("C16/short/format-then-parse-accepted", err == nil)
	if err == nil {
		verifAssert("C16/short/format-then-parse-is-identity", back == data)
	}
	verifObserve("formatted", s)
	verifReach("C16/short/end")
}

func VerifC16_FormatParseLongInt() {
	u := verifUnitSet(verifUnitChoice())
	data := verifQuantity("data")
	s := u.FormatLongInt(data)
	back, err := u.ParseInt(s)
	verifAssert("C16/long/format-then-parse-accepted", err == nil)
	if err == nil {
		verifAssert("C16/long/format-then-parse-is-identity", back == data)
	}
	verifObserve("formatted", s)
	verifReach("C16/long/end")
}

// quantities beyond 2^53, where float64 cannot represent every integer (power-of-two and small odd multipliers)
func VerifC16_FormatParseHuge() {
	k := nondetChoice("units", 2)
	u := UnitBytes
	if k == 1 {
		u = verifUnitSet(5)
	}
	// windows of consecutive integers far above 2^53: a base constant plus a symbolic offset
	bases := [4]int64{1<<53 + 1, 0x0405e761917ffbe0, math.MaxInt64 - 1023, 1 << 62}
	base := bases[nondetChoice("base", 4)]
	delta := nondetInt64("delta")
	width := int64(16)
	if verifTier() > 0 {
		width = 1024
	}
	verifAssume(vAnd(delta >= 0, delta < width))
	data := base + delta
	s := u.FormatShortInt(data)
	back, err := u.ParseInt(s)
	verifAssert("C16/huge/format-then-parse-accepted", err == nil)
	if err == nil {
		verifAssert("C16/huge/format-then-parse-is-identity", back == data)
	}
	verifReach("C16/huge/end")
}

// counts followed by declared unit names, largest unit first: the sum of count x multiplier, or an error when the
// value does not fit in 64 bits — never a wrong number
func VerifC16_ParseAccumulate() {
	which := nondetChoice("units", 2)
	u := UnitDurationSeconds
	mults := []int64{86400, 3600, 60, 1}
	names := []string{"d", "H", "m", "s"}
	if which == 1 {
		u = UnitBytes
		mults = []int64{1125899906842624, 1099511627776, 1048576, 1}
		names = []string{"PB", "TB", "MB", "B"}
	}
	maxDigits := 5
	if verifTier() > 0 {
		maxDigits = 19
	}
	s := ""
	var sum int64
	fits := true
	any := false
	big := nondetChoice("big", len(mults)+1) // which group (if any) carries the long count
	space := nondetBool("space")
	for i := range mults {
		if !nondetBool(verifNm("has", i)) {
			continue
		}
		any = true
		nd := 1
		if i == big {
			nd = maxDigits
		}
		digits := nondetDigits(verifNm("g", i), nd)
		var count uint64
		for j := 0; j < nd; j++ {
			count = count*10 + uint64(digits[j]-'0')
		}
		// exact arithmetic by range checks: the product fits iff count <= MaxInt64/m, the sum iff it stays below MaxInt64
		termFits := count <= uint64(math.MaxInt64/mults[i])
		term := int64(count) * mults[i]
		sumFits := sum <= math.MaxInt64-term
		fits = vAnd(fits, vAnd(termFits, vOr(vNot(termFits), sumFits)))
		sum += term
		if space {
			s += digits + " " + names[i] + " "
		} else {
			s += digits + names[i]
		}
	}
	if !any {
		verifReach("C16/accumulate/end")
		return
	}
	got, err := u.ParseInt(s)
	verifAssert("C16/accumulate/accepted-iff-fits", vIff(err == nil, fits))
	if err == nil {
		verifAssert("C16/accumulate/value-is-sum", got == sum)
	}
	verifObserve("ok", err == nil)
	verifReach("C16/accumulate/end")
}

// the running sum: two multi-digit groups whose products fit one by one but whose sum may not (8191PB + 1024TB = 2^63)
func VerifC16_ParseSumOverflow() {
	u := UnitBytes
	mults := []int64{1125899906842624, 1099511627776, 1}
	names := []string{"PB", "TB", "B"}
	nds := []int{4, 4, 1}
	if verifTier() > 0 {
		nds = []int{5, 7, 19}
	}
	s := ""
	var sum int64
	fits := true
	for i := range mults {
		if i == 2 && !nondetBool("hasB") {
			continue
		}
		digits := nondetDigits(verifNm("g", i), nds[i])
		var count uint64
		for j := 0; j < nds[i]; j++ {
			count = count*10 + uint64(digits[j]-'0')
		}
		termFits := count <= uint64(math.MaxInt64/mults[i])
		term := int64(count) * mults[i]
		sumFits := sum <= math.MaxInt64-term
		fits = vAnd(fits, vAnd(termFits, vOr(vNot(termFits), sumFits)))
		sum += term
		s += digits + names[i]
	}
	got, err := u.ParseInt(s)
	verifAssert("C16/sum/accepted-iff-fits", vIff(err == nil, fits))
	if err == nil {
		verifAssert("C16/sum/value-is-sum", got == sum)
	}
	verifObserve("ok", err == nil)
	verifReach("C16/sum/end")
}

// every other string is rejected
func VerifC16_ParseRejects() {
	u := UnitDurationSeconds
	d := nondetDigits("d", 2)
	e := nondetDigits("e", 1)
	k := nondetChoice("shape", 9)
	var s string
	switch k {
	case 0:
		s = d + "s" + e + "m" // wrong order
	case 1:
		s = d + "x" // undeclared unit
	case 2:
		s = "m" + d // unit before count
	case 3:
		s = d + "m" + e + "m" // unit twice
	case 4:
		s = "-" + d + "s" // negative
	case 5:
		s = d + "ms" // not a unit of this set
	case 6:
		s = d + "m" + e + "s" + "s"
	case 7:
		s = d + "." + "s" // dangling fraction
	case 8:
		s = d + "d" + e + "d"
	}
	_, err := u.ParseInt(s)
	verifAssert("C16/rejects/malformed-rejected", err != nil)
	// and the well-formed neighbours are accepted with the right value
	v, err2 := u.ParseInt(d + "m" + e + "s")
	want := (int64(d[0]-'0')*10+int64(d[1]-'0'))*60 + int64(e[0]-'0')
	verifAssert("C16/rejects/wellformed-neighbour-accepted", err2 == nil && v == want)
	verifReach("C16/rejects/end")
}

// unit names containing regexp metacharacters, in each of the eight name positions: the declared names are accepted
// literally and with the right value, strings that only match when a metacharacter is live are rejected
func VerifC16_MetaNames() {
	u := verifUnitSet(6) // base "u." "u.s" "unit+" "unit+s"; x10 "k*" "k*s" "kilo(" "kilo(s"
	d := nondetDigits("d", 2)
	e := nondetDigits("e", 1)
	dv := int64(d[0]-'0')*10 + int64(d[1]-'0')
	ev := int64(e[0] - '0')
	k := nondetChoice("shape", 14)
	var s string
	accept := true
	want := int64(0)
	switch k {
	case 0:
		s, want = d+"k*", dv*10
	case 1:
		s, want = d+"k*s", dv*10
	case 2:
		s, want = d+"kilo(", dv*10
	case 3:
		s, want = d+" kilo(s "+e+"unit+s", dv*10+ev
	case 4:
		s, want = d+"u.", dv
	case 5:
		s, want = d+"u.s", dv
	case 6:
		s, want = d+"k*"+e+"unit+", dv*10+ev
	case 7:
		s, accept = d+"kks", false // matches only if * is live
	case 8:
		s, accept = d+"s", false
	case 9:
		s, accept = d+"uXs", false // matches only if . is live
	case 10:
		s, accept = d+"ux", false
	case 11:
		s, accept = d+"unitt", false // + live
	case 12:
		s, accept = d+"kilo", false
	case 13:
		s, accept = d+"k", false
	}
	got, err := u.ParseInt(s)
	verifAssert("C16/meta/accepted-iff-declared-names", (err == nil) == accept)
	if err == nil && accept {
		verifAssert("C16/meta/value", got == want)
	}
	// and formatting such a definition parses back
	data := nondetInt64("data")
	verifAssume(vAnd(data >= 0, data < 256))
	back, err2 := u.ParseInt(u.FormatShortInt(data))
	verifAssert("C16/meta/short-roundtrip", err2 == nil && back == data)
	back2, err3 := u.ParseInt(u.FormatLongInt(data))
	verifAssert("C16/meta/long-roundtrip", err3 == nil && back2 == data)
	verifReach("C16/meta/end")
}

// an integer schema with units: unit strings and plain numbers both denote, constraints apply to the parsed value
func VerifC16_SchemaUnits() {
	min, max := verifOptInt64("min"), verifOptInt64("max")
	s := NewIntSchema(min, max, UnitDurationSeconds)
	m, sec := nondetDigits("m", 2), nondetDigits("s", 2)
	raw := m + "m" + sec + "s"
	n := (int64(m[0]-'0')*10+int64(m[1]-'0'))*60 + int64(sec[0]-'0')*10 + int64(sec[1]-'0')
	got, err := s.Unserialize(raw)
	verifAssert("C16/schema/accepted-iff-in-range", vIff(err == nil, specInRangeInt(n, min, max)))
	if err == nil {
		verifAssert("C16/schema/value", got.(int64) == n)
	}
	verifObserve("ok", err == nil)
	verifReach("C16/schema/end")
}

// float quantities that are whole numbers: "%f" of a whole float below 2^53 is its decimal digits followed by
// ".000000" and ParseFloat of digits[.zeros] is the integer (both modelled exactly, DESIGN 8.2); fractional
// quantities need decimal expansions of symbolic floats and stay outside the claim
func init() {
	verifRegister("VerifC16_FormatParseShortFloatWhole", VerifC16_FormatParseShortFloatWhole)
	verifRegister("VerifC16_FormatParseLongFloatWhole", VerifC16_FormatParseLongFloatWhole)
}

// whole float quantities: below 2^4 in the quick tier (two of the 7-unit of the odd set 91/7/1), below 2^7 in the
// thorough tier (one of each unit, two minutes): every fp.div/floor obligation costs the solver seconds
// unit sets for the float entries: the odd set 91/7/1 and the set without multipliers (both tiers; the sexagesimal
// and binary sets at 2^12 needed 15 min and left solver answers unknown, so they are not registered)
func verifFloatUnitChoice() int {
	return [2]int{3, 5}[nondetChoice("unitsFloat", 2)]
}

func verifWholeFloatQuantity(name string) float64 {
	d := nondetInt64(name)
	bound := int64(1) << 4
	if verifTier() > 0 {
		bound = int64(1) << 7
	}
	verifAssume(vAnd(d >= 0, d < bound))
	return float64(d)
}

func VerifC16_FormatParseShortFloatWhole() {
	u := verifUnitSet(verifFloatUnitChoice())
	data := verifWholeFloatQuantity("data")
	s := u.FormatShortFloat(data)
	back, err := u.ParseFloat(s)
	verifAssert("C16/short-float/format-then-parse-accepted", err == nil)
	if err == nil {
		verifAssert("C16/short-float/format-then-parse-is-identity", back == data)
	}
	verifObserve("formatted", s)
	verifReach("C16/short-float/end")
}

func VerifC16_FormatParseLongFloatWhole() {
	u := verifUnitSet(verifFloatUnitChoice())
	data := verifWholeFloatQuantity("data")
	s := u.FormatLongFloat(data)
	back, err := u.ParseFloat(s)
	verifAssert("C16/long-float/format-then-parse-accepted", err == nil)
	if err == nil {
		verifAssert("C16/long-float/format-then-parse-is-identity", back == data)
	}
	verifObserve("formatted", s)
	verifReach("C16/long-float/end")
}
