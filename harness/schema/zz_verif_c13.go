package schema

import "context"

// C13 — schemas are safe for concurrent use (reduced: sufficient condition). Every operation, on every path,
// must write only to memory it allocated itself, or touch shared cells under a common lock. The engine freezes
// the schema graph and all package-level state (verifSharedBegin), runs the operations and reports every write
// into frozen memory made with no lock held; natively the same operations run in two goroutines under the race
// detector, which is what confirms a report.

func init() {
	verifRegister("VerifC13_FirstUse", VerifC13_FirstUse)
}

const verifNShared = 17

func verifSharedCase(k int) (s any, ops func(i int)) {
	switch k {
	case 0: // units on a package-level definition: parsing
		is := NewIntSchema(nil, nil, UnitBytes)
		return is, func(i int) { _, _ = is.Unserialize("5kB") }
	case 1: // units: formatting
		is := NewIntSchema(nil, nil, UnitDurationNanoseconds)
		return is, func(i int) { _ = is.Units().FormatShortInt(90061) }
	case 2: // an object as UnserializeSchema leaves it: decoded defaults not yet extracted
		o := &ObjectSchema{IDValue: "O", PropertiesValue: map[string]*PropertySchema{
			"a": NewPropertySchema(NewIntSchema(nil, nil, nil), nil, false, nil, nil, nil, verifStrPtr("1"), nil),
		}}
		return o, func(i int) { _, _ = o.Unserialize(map[string]any{}) }
	case 3: // freshly constructed object with defaults and rules
		o := NewObjectSchema("O", map[string]*PropertySchema{
			"a": NewPropertySchema(NewIntSchema(nil, nil, nil), nil, false, nil, nil, nil, verifStrPtr("1"), nil),
			"b": NewPropertySchema(NewStringSchema(nil, nil, nil), nil, false, []string{"a"}, nil, nil, nil, nil),
		})
		return o, func(i int) {
			u, err := o.Unserialize(map[string]any{"b": "x"})
			if err == nil {
				_ = o.Validate(u)
				_, _ = o.Serialize(u)
			}
		}
	case 4: // struct-mapped object with a defaulted sub-object
		inner := NewStructMappedObjectSchema[verifInner]("Inner", map[string]*PropertySchema{
			"a": NewPropertySchema(NewIntSchema(nil, nil, nil), nil, false, nil, nil, nil, verifStrPtr("1"), nil),
			"b": NewPropertySchema(NewIntSchema(nil, nil, nil), nil, false, nil, nil, nil, verifStrPtr("2"), nil),
		})
		outer := NewStructMappedObjectSchema[verifOuter]("Outer", map[string]*PropertySchema{
			"in": NewPropertySchema(inner, nil, false, nil, nil, nil, verifStrPtr(`{"a":7}`), nil),
		})
		return outer, func(i int) {
			u, err := outer.Unserialize(map[string]any{})
			if err == nil {
				_, _ = outer.Serialize(u)
			}
		}
	case 5: // scope with recursive reference
		sc := NewScopeSchema(NewObjectSchema("A", map[string]*PropertySchema{
			"v":    NewPropertySchema(NewIntSchema(nil, nil, nil), nil, true, nil, nil, nil, nil, nil),
			"next": NewPropertySchema(NewRefSchema("A", nil), nil, false, nil, nil, nil, nil, nil),
		}))
		return sc, func(i int) {
			u, err := sc.Unserialize(map[string]any{"v": int64(i), "next": map[string]any{"v": int64(2)}})
			if err == nil {
				_ = sc.Validate(u)
			}
		}
	case 6: // one-of
		oo := NewOneOfStringSchema[any](map[string]Object{
			"x": NewObjectSchema("X", map[string]*PropertySchema{"v": NewPropertySchema(NewIntSchema(nil, nil, nil), nil, false, nil, nil, nil, nil, nil)}),
		}, "d", false)
		return oo, func(i int) {
			u, err := oo.Unserialize(map[string]any{"d": "x", "v": int64(i)})
			if err == nil {
				_, _ = oo.Serialize(u)
			}
		}
	case 7: // list / map / any / enum
		l := NewListSchema(NewMapSchema(NewStringSchema(nil, nil, nil), NewAnySchema(), nil, nil), nil, nil)
		return l, func(i int) {
			u, err := l.Unserialize([]any{map[string]any{"k": []any{int64(i)}}})
			if err == nil {
				_, _ = l.Serialize(u)
			}
			_ = l.ValidateCompatibility(l)
		}
	case 8: // float with units, parse and format
		fs := NewFloatSchema(nil, nil, UnitDurationSeconds)
		return fs, func(i int) {
			_, _ = fs.Unserialize("5m5.1s")
			_ = fs.Units().FormatShortFloat(305.1)
		}
	case 9: // enum compatibility and validation
		e := NewIntEnumSchema(map[int64]*DisplayValue{1: nil, 2: nil}, nil)
		return e, func(i int) {
			_ = e.ValidateCompatibility(e)
			_, _ = e.Unserialize(int64(i))
		}
	}
	switch k {
	case 12, 13: // a scope as UnserializeScope returns it (lazy parts not yet computed): units, defaults, references
		src := NewScopeSchema(NewObjectSchema("A", map[string]*PropertySchema{
			"t":    NewPropertySchema(NewIntSchema(nil, nil, UnitDurationSeconds), nil, false, nil, nil, nil, verifStrPtr(`"5m"`), nil),
			"s":    NewPropertySchema(NewStringSchema(nil, nil, verifPatAB), nil, false, nil, nil, nil, nil, nil),
			"next": NewPropertySchema(NewRefSchema("A", nil), nil, false, nil, nil, nil, nil, nil),
		}))
		d, err := src.SelfSerialize()
		if err != nil {
			panic("C13: scope does not describe itself")
		}
		var desc any = d
		if k == 13 {
			desc = verifCBOR(d)
		}
		rebuilt, err := UnserializeScope(desc)
		if err != nil {
			panic("C13: description not accepted")
		}
		return rebuilt, func(i int) {
			u, err := rebuilt.Unserialize(map[string]any{"t": "1H5s", "s": "ab", "next": map[string]any{}})
			if err == nil {
				_ = rebuilt.Validate(u)
				_, _ = rebuilt.Serialize(u)
			}
			_ = rebuilt.ValidateCompatibility(map[string]any{"t": int64(i)})
		}
	case 16: // three levels of struct-mapped objects: the default of root.sub covers every defaulted direct member of
		// Sub, and Sub has a nested sub-object with a default of its own (merged into a copy, never into the schema)
		inner := NewStructMappedObjectSchema[verifC13Inner]("inner", map[string]*PropertySchema{
			"level": NewPropertySchema(NewIntSchema(nil, nil, nil), nil, false, nil, nil, nil, verifStrPtr("3"), nil),
		})
		sub := NewStructMappedObjectSchema[verifC13Sub]("sub", map[string]*PropertySchema{
			"name":  NewPropertySchema(NewStringSchema(nil, nil, nil), nil, false, nil, nil, nil, verifStrPtr(`"anonymous"`), nil),
			"inner": NewPropertySchema(inner, nil, false, nil, nil, nil, nil, nil),
		})
		root := NewStructMappedObjectSchema[verifC13Root]("root", map[string]*PropertySchema{
			"sub": NewPropertySchema(sub, nil, false, nil, nil, nil, verifStrPtr(`{"name":"configured"}`), nil),
		})
		return root, func(i int) {
			u, err := root.Unserialize(map[string]any{})
			if err == nil {
				_, _ = root.Serialize(u)
			}
		}
	case 14: // schema-mode compatibility and self-description (the package-level meta-schema is shared state)
		o := NewScopeSchema(NewObjectSchema("O", map[string]*PropertySchema{
			"a": NewPropertySchema(NewIntSchema(nil, nil, UnitBytes), nil, true, nil, nil, nil, nil, nil),
			"e": NewPropertySchema(NewStringEnumSchema(map[string]*DisplayValue{"x": NewDisplayValue(nil, nil, nil)}), nil, false, nil, nil, nil, nil, nil),
		}))
		return o, func(i int) {
			_ = o.ValidateCompatibility(o)
			_, _ = o.SelfSerialize()
		}
	case 15: // a whole plugin schema: describe, and rebuild
		step := NewCallableStep[map[string]any]("s", verifScopeOf(map[string]*PropertySchema{}, "In"),
			map[string]*StepOutputSchema{"ok": NewStepOutputSchema(verifScopeOf(map[string]*PropertySchema{}, "Ok"), nil, false)}, nil,
			func(ctx context.Context, in map[string]any) (string, any) { return "ok", map[string]any{} })
		cs := NewCallableSchema(step)
		return cs, func(i int) {
			d, err := cs.SelfSerialize()
			if err == nil {
				_, _ = UnserializeSchema(d)
			}
		}
	}
	if k == 10 || k == 11 {
		// step calls: a step and a signal of the same run (10) or of different runs (11) on first use of the run
		step := NewCallableStepWithSignals[*verifStepData, map[string]any](
			"s",
			verifScopeOf(map[string]*PropertySchema{}, "In"),
			map[string]*StepOutputSchema{"ok": NewStepOutputSchema(verifScopeOf(map[string]*PropertySchema{}, "Ok"), nil, false)},
			map[string]CallableSignal{
				"sig": NewCallableSignal[*verifStepData, map[string]any]("sig",
					verifScopeOf(map[string]*PropertySchema{}, "Sig"), nil,
					func(ctx context.Context, d *verifStepData, in map[string]any) {}),
			},
			nil, nil,
			func() *verifStepData { return &verifStepData{} },
			func(ctx context.Context, d *verifStepData, in map[string]any) (string, any) { return "ok", map[string]any{} },
		)
		cs := NewCallableSchema(step)
		return step, func(i int) {
			run := "r"
			if k == 11 && i == 1 {
				run = "r2"
			}
			if i == 0 {
				_, _, _ = cs.CallStep(context.Background(), run, "s", map[string]any{})
			} else {
				_ = cs.CallSignal(context.Background(), run, "s", "sig", map[string]any{})
			}
		}
	}
	panic("bad case")
}

func VerifC13_FirstUse() {
	k := nondetChoice("case", verifNShared)
	s, op := verifSharedCase(k)
	verifSharedBegin(s)
	verifConcurrently(2, op)
	verifSharedCheck("C13/no-unsynchronised-shared-writes")
	verifReach("C13/firstuse/end")
}

// step calls from several goroutines return what they return in isolation: a step call racing two signal calls under
// every bounded schedule still creates the run's step data once and hands the same data to every handler (a
// check-then-act gap is invisible to the lockset when every single access is locked)
func VerifC13_StepCallsIsolated() { verifStepDataRace("C13/stepcalls") }

func init() { verifRegister("VerifC13_StepCallsIsolated", VerifC13_StepCallsIsolated) }

type verifC13Inner struct {
	Level int64 `json:"level"`
}
type verifC13Sub struct {
	Name  string        `json:"name"`
	Inner verifC13Inner `json:"inner"`
}
type verifC13Root struct {
	Sub verifC13Sub `json:"sub"`
}
