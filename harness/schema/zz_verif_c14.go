package schema

// C14 — references resolve lexically; inlining a reference never changes behaviour.

func init() {
	verifRegister("VerifC14_Lexical", VerifC14_Lexical)
	verifRegister("VerifC14_InlineEquivalence", VerifC14_InlineEquivalence)
	verifRegister("VerifC14_Recursive", VerifC14_Recursive)
}

func verifNS(k int) string {
	if k == 0 {
		return SelfNamespace
	}
	return "ext"
}

func verifRefProp(t Type) *PropertySchema {
	return NewPropertySchema(t, nil, false, nil, nil, nil, nil, nil)
}

// verifPlace puts a type under a property directly, or under a list, a map value or a one-of member.
func verifPlace(where int, t Object) Type {
	switch where {
	case 1:
		return NewListSchema(t, nil, nil)
	case 2:
		return NewMapSchema(NewStringSchema(nil, nil, nil), t, nil, nil)
	case 3:
		return NewOneOfStringSchema[any](map[string]Object{"m": t}, "kind", false)
	}
	return t
}

func VerifC14_Lexical() {
	innerNS := nondetChoice("innerNS", 2)
	outerNS := nondetChoice("outerNS", 2)
	// self-namespace ids range over what the enclosing scope defines (a dangling one is a documented panic);
	// ext ids over what the supplied table defines
	var innerID, outerID string
	if innerNS == 0 {
		innerID = nondetStringFrom("innerID", "A", "C")
	} else {
		innerID = nondetStringFrom("innerIDext", "A", "B")
	}
	if outerNS == 0 {
		outerID = nondetStringFrom("outerID", "A", "B")
	} else {
		outerID = nondetStringFrom("outerIDext", "A", "B")
	}
	where := nondetChoice("where", 4)

	innerRef := NewNamespacedRefSchema(innerID, verifNS(innerNS), nil)
	innerA := NewObjectSchema("A", map[string]*PropertySchema{"z": verifRefProp(NewStringSchema(nil, nil, nil))})
	innerC := NewObjectSchema("C", map[string]*PropertySchema{"q": verifRefProp(innerRef)})
	inner := NewScopeSchema(innerC, innerA)

	outerRef := NewNamespacedRefSchema(outerID, verifNS(outerNS), nil)
	outerA := NewObjectSchema("A", map[string]*PropertySchema{
		"x":  verifRefProp(NewIntSchema(nil, nil, nil)),
		"in": verifRefProp(inner),
		"r":  verifRefProp(verifPlace(where, outerRef)),
	})
	// a third reference held by a non-root object of the outer scope
	nonRootNS := nondetChoice("nonRootNS", 2)
	nonRootID := nondetStringFrom("nonRootID", "A", "B")
	nonRootRef := NewNamespacedRefSchema(nonRootID, verifNS(nonRootNS), nil)
	outerB := NewObjectSchema("B", map[string]*PropertySchema{
		"y": verifRefProp(NewIntSchema(nil, nil, nil)),
		"g": verifRefProp(nonRootRef),
	})
	outer := NewScopeSchema(outerA, outerB)

	extA := NewObjectSchema("A", map[string]*PropertySchema{"e": verifRefProp(NewBoolSchema())})
	extB := NewObjectSchema("B", map[string]*PropertySchema{"f": verifRefProp(NewBoolSchema())})
	ext := map[string]*ObjectSchema{"A": extA, "B": extB}
	other := map[string]*ObjectSchema{"A": NewObjectSchema("A", nil), "B": NewObjectSchema("B", nil), "C": NewObjectSchema("C", nil)}

	order := nondetChoice("order", 4)
	extApplied := false
	switch order {
	case 1:
		outer.ApplyNamespace(ext, "ext")
		extApplied = true
	case 2:
		outer.ApplyNamespace(other, "other")
	case 3:
		outer.ApplyNamespace(other, "other")
		outer.ApplyNamespace(ext, "ext")
		outer.ApplySelf()
		extApplied = true
	}

	// what the lexical rule designates
	var wantInner, wantOuter Object
	if innerNS == 0 {
		if innerID == "A" {
			wantInner = innerA // the inner scope's A shadows the outer A
		} else {
			wantInner = innerC
		}
	} else if extApplied {
		if innerID == "A" {
			wantInner = extA
		} else {
			wantInner = extB
		}
	}
	if outerNS == 0 {
		if outerID == "A" {
			wantOuter = outerA
		} else {
			wantOuter = outerB
		}
	} else if extApplied {
		if outerID == "A" {
			wantOuter = extA
		} else {
			wantOuter = extB
		}
	}
	var wantNonRoot Object
	if nonRootNS == 0 {
		if nonRootID == "A" {
			wantNonRoot = outerA
		} else {
			wantNonRoot = outerB
		}
	} else if extApplied {
		if nonRootID == "A" {
			wantNonRoot = extA
		} else {
			wantNonRoot = extB
		}
	}
	verifAssert("C14/lexical/non-root-reference-target", nonRootRef.referencedObjectCache == wantNonRoot)
	verifAssert("C14/lexical/inner-reference-target", innerRef.referencedObjectCache == wantInner)
	verifAssert("C14/lexical/outer-reference-target", outerRef.referencedObjectCache == wantOuter)
	allLinked := wantInner != nil && wantOuter != nil && wantNonRoot != nil
	verr := outer.ValidateReferences()
	verifAssert("C14/lexical/validate-references-iff-all-linked", (verr == nil) == allLinked)
	verifAssert("C14/lexical/object-ready", innerRef.ObjectReady() == (wantInner != nil) && outerRef.ObjectReady() == (wantOuter != nil))
	verifObserve("linked", allLinked)
	verifReach("C14/lexical/end")
}

// a scope using references and its mechanically inlined twin accept the same inputs with the same results
func VerifC14_InlineEquivalence() {
	where := nondetChoice("where", 4)
	ymin := verifOptInt64("ymin")
	mkB := func() *ObjectSchema {
		return NewObjectSchema("B", map[string]*PropertySchema{
			"y": NewPropertySchema(NewIntSchema(ymin, nil, nil), nil, true, nil, nil, nil, nil, nil),
			"s": NewPropertySchema(NewStringSchema(nil, nil, nil), nil, false, nil, nil, nil, verifStrPtr(`"d"`), nil),
		})
	}
	withRef := NewScopeSchema(
		NewObjectSchema("Root", map[string]*PropertySchema{"r": verifRefProp(verifPlace(where, NewRefSchema("B", nil)))}),
		mkB(),
	)
	inlined := NewScopeSchema(
		NewObjectSchema("Root", map[string]*PropertySchema{"r": verifRefProp(verifPlace(where, mkB()))}),
	)
	leaf := map[string]any{}
	if nondetBool("hasY") {
		leaf["y"] = nondetInt64("y")
	}
	if nondetBool("hasS") {
		leaf["s"] = nondetStringFrom("s", "a", "")
	}
	if nondetBool("hasZ") {
		leaf["zz"] = int64(1)
	}
	var r any
	switch where {
	case 0:
		r = leaf
	case 1:
		r = []any{leaf}
	case 2:
		r = map[string]any{"k": leaf}
	case 3:
		leaf["kind"] = "m"
		r = leaf
	}
	raw := map[string]any{"r": r}
	u1, e1 := withRef.Unserialize(verifClone(raw))
	u2, e2 := inlined.Unserialize(verifClone(raw))
	verifAssert("C14/inline/same-verdict", (e1 == nil) == (e2 == nil))
	if e1 == nil && e2 == nil {
		verifAssert("C14/inline/same-result", verifDeepEqual(u1, u2))
		w1, s1 := withRef.Serialize(u1)
		w2, s2 := inlined.Serialize(u2)
		verifAssert("C14/inline/same-serialization", (s1 == nil) == (s2 == nil) && verifDeepEqual(w1, w2))
		verifAssert("C14/inline/same-validation", (withRef.Validate(u1) == nil) == (inlined.Validate(u2) == nil))
	}
	verifAssert("C14/inline/both-linked", withRef.ValidateReferences() == nil && inlined.ValidateReferences() == nil)
	verifObserve("accepted", e1 == nil)
	verifReach("C14/inline/end")
}

// self-referential and mutually recursive object graphs work on finite inputs
func VerifC14_Recursive() {
	vmin := verifOptInt64("vmin")
	s := NewScopeSchema(
		NewObjectSchema("A", map[string]*PropertySchema{
			"v":    NewPropertySchema(NewIntSchema(vmin, nil, nil), nil, true, nil, nil, nil, nil, nil),
			"next": verifRefProp(NewRefSchema("A", nil)),
			"b":    verifRefProp(NewListSchema(NewRefSchema("B", nil), nil, nil)),
		}),
		NewObjectSchema("B", map[string]*PropertySchema{
			"back": verifRefProp(NewRefSchema("A", nil)),
		}),
	)
	depth := 1 + nondetChoice("depth", 3)
	viaB := nondetBool("viaB")
	allOK := true
	var build func(d int) map[string]any
	build = func(d int) map[string]any {
		v := nondetInt64(verifNm("v", d))
		if vmin != nil {
			allOK = vAnd(allOK, v >= *vmin)
		}
		m := map[string]any{"v": v}
		if d+1 < depth {
			if viaB {
				m["b"] = []any{map[string]any{"back": build(d + 1)}}
			} else {
				m["next"] = build(d + 1)
			}
		}
		return m
	}
	raw := build(0)
	u, err := s.Unserialize(raw)
	verifAssert("C14/recursive/accepted-iff-every-level-valid", vIff(err == nil, allOK))
	if err == nil {
		verifAssert("C14/recursive/validates", s.Validate(u) == nil)
		w, e := s.Serialize(u)
		verifAssert("C14/recursive/serializes-to-input", e == nil && verifDeepEqual(w, raw))
	}
	verifObserve("accepted", err == nil)
	verifReach("C14/recursive/end")
}

// self-referential graphs of one-property objects (the lone-value shorthand follows such chains): the chain may run
// into a cycle that does not contain the object it started from; every finite input still gets an answer
func VerifC14_RecursiveChains() {
	one := func(id, target string) *ObjectSchema {
		return NewObjectSchema(id, map[string]*PropertySchema{"next": verifRefProp(NewRefSchema(target, nil))})
	}
	var s *ScopeSchema
	switch nondetChoice("graph", 4) {
	case 0:
		s = NewScopeSchema(one("A", "A"))
	case 1:
		s = NewScopeSchema(one("A", "B"), one("B", "A"))
	case 2: // A -> B -> B
		s = NewScopeSchema(one("A", "B"), one("B", "B"))
	case 3: // A -> B -> C -> B
		s = NewScopeSchema(one("A", "B"), one("B", "C"), one("C", "B"))
	}
	var in any
	switch nondetChoice("input", 5) {
	case 0:
		in = "x"
	case 1:
		in = nondetInt64("n")
	case 2:
		in = []any{int64(1)}
	case 3:
		in = map[string]any{}
	case 4:
		in = map[string]any{"next": map[string]any{"next": map[string]any{}}}
	}
	_, isMap := in.(map[string]any)
	u, err := s.Unserialize(in)
	// a non-map value can never be the shorthand of an endless chain; maps of any finite depth are accepted
	verifAssert("C14/chains/accepted-iff-finite-mapping", (err == nil) == isMap)
	if err == nil {
		verifAssert("C14/chains/validates", s.Validate(u) == nil)
	}
	verifObserve("accepted", err == nil)
	verifReach("C14/chains/end")
}

func init() { verifRegister("VerifC14_RecursiveChains", VerifC14_RecursiveChains) }
