package main

import (
	"bytes"
	"os"
	"strings"
)

// C19 — the code generator is total, deterministic, one typed field per property.
// mustGenerateTypeDef runs on a decoded schema built directly (YAML decoding, gofmt's text and the subprocess are
// outside; go/format itself runs natively inside the engine on the concrete output).

func init() {
	verifRegister("VerifC19_Generate", VerifC19_Generate)
}

var verifObjNames = [3]string{"alpha", "beta", "gamma"}
// two of the names differ only in case: distinct valid Go fields whose order must still be fixed
var verifPropNames = [3]string{"hostIP", "hostIp", "size"}

func verifCodegenSchema() (schema, int, [3]int, [3][3]string) {
	var s schema
	// quick: 0..2 objects x 0..2 properties; thorough: 0..3 objects x 0..2 properties (every iteration order of
	// every map is explored: 3 x 3 would be 6 x 6^3 orders per shape)
	maxN := 3
	nObj := nondetChoice("nobj", 3+verifTier())
	typeIDs := [5]string{"integer", "float", "ref", "string", "bool"}
	base := nondetChoice("typeBase", 5)
	idKind := nondetChoice("idKind", 3)
	var nProps [3]int
	var types [3][3]string
	s.Steps.Create.Input.Objects = map[string]struct {
		Id         string               `yaml:"id"`
		Properties map[string]*property `yaml:"properties"`
	}{}
	for i := 0; i < nObj; i++ {
		nProps[i] = nondetChoice(verifNm("nprops", i), maxN)
		props := map[string]*property{}
		for j := 0; j < nProps[i]; j++ {
			p := &property{}
			p.Type.TypeID = typeIDs[(base+2*i+j)%5]
			if p.Type.TypeID == "ref" {
				p.Type.Id = "Beta"
			}
			types[i][j] = p.Type.TypeID
			props[verifPropNames[j]] = p
		}
		o := s.Steps.Create.Input.Objects[verifObjNames[i]]
		// the struct is named after the key of the objects map; the inner id is normally the same but need not be
		switch idKind {
		case 0:
			o.Id = verifObjNames[i]
		case 1:
			o.Id = ""
		case 2:
			o.Id = verifObjNames[(i+1)%3]
		}
		o.Properties = props
		s.Steps.Create.Input.Objects[verifObjNames[i]] = o
	}
	return s, nObj, nProps, types
}

func verifNm(base string, i int) string { return base + string(rune('0'+i)) }

func VerifC19_Generate() {
	s, nObj, nProps, types := verifCodegenSchema()
	withIgnore := nondetBool("withIgnoreArgument")
	ignoreFirst := false
	if withIgnore {
		ignoreFirst = nondetBool("ignoreAlpha")
		if ignoreFirst {
			os.Args = []string{"gen", "in.yaml", "alpha"}
		} else {
			os.Args = []string{"gen", "in.yaml", "zzz"}
		}
	} else {
		os.Args = []string{"gen", "in.yaml"}
	}
	verifReach("C19/generate/built")
	out1 := mustGenerateTypeDef(s)
	verifAllMapOrders(true)
	out2 := mustGenerateTypeDef(s)
	verifAllMapOrders(false)
	verifAssert("C19/generate/byte-identical-on-rerun", bytes.Equal(out1, out2))
	text := string(out1)
	for i := 0; i < nObj; i++ {
		title := strings.ToUpper(verifObjNames[i][:1]) + verifObjNames[i][1:]
		want := !(ignoreFirst && i == 0)
		verifAssert("C19/generate/one-struct-per-non-ignored-object", (strings.Count(text, "type "+title+" struct") == 1) == want)
		if !want {
			continue
		}
		for j := 0; j < nProps[i]; j++ {
			var typ string
			switch types[i][j] {
			case "integer":
				typ = "int64"
			case "float":
				typ = "float64"
			case "ref":
				typ = "Beta"
			default:
				typ = types[i][j]
			}
			field := strings.ToUpper(verifPropNames[j][:1]) + verifPropNames[j][1:]
			// gofmt aligns the columns: compare with the spaces squeezed out
			squeezed := strings.Join(strings.Fields(text), " ")
			verifAssert("C19/generate/typed-json-tagged-field", strings.Contains(squeezed, field+" "+typ+" `json:\"" + verifPropNames[j] + "\"`"))
		}
	}
	verifReach("C19/generate/end")
}
