#!/bin/bash
for s in C05-1:C05 C05-2:C05 C07-1:C07 C07-2:C07 C08-1:C08 C08-2:C08; do
  id=${s%%:*}; prop=${s##*:}
  /verif/tools/seed_eval.sh /tmp/wt-$prop/seed/$id $id $prop -maxtime 8m 2>&1 | tail -7
done
