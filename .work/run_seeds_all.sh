#!/bin/bash
for s in C01-1:C01 C01-2:C01 C02-1:C02 C02-2:C02 C03-1:C03 C03-2:C03 C04-1:C04 C04-2:C04 C05-1:C05 C05-2:C05 C06-1:C06 C06-2:C06 C07-1:C07 C07-2:C07 C08-1:C08 C08-2:C08 C11-1:C11 C11-2:C11 C12-1:C12 C12-2:C12 C13-1:C13 C13-2:C13 C14-1:C14 C14-2:C14 C15-1:C15 C15-2:C15 C16-1:C16 C16-2:C16 C17-1:C17 C17-2:C17; do
  id=${s%%:*}; prop=${s##*:}
  /verif/tools/seed_eval.sh /tmp/wt-$prop/seed/$id $id $prop -maxtime 8m 2>&1 | tail -7
done
