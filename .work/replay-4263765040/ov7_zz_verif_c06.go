package atp

import (
	"sync"

	"go.flow.arcalot.io/pluginsdk/schema"
)

// C06 — every Execute on a healthy connection returns exactly once under any schedule; Close returns.
// The obligation is the absence of a state in which the harness goroutine is blocked forever (the engine reports
// it as a deadlock with the schedule that leads there), plus the data assertions below.

func init() {
	verifRegister("VerifC06_BackToBack", VerifC06_BackToBack)
	verifRegister("VerifC06_Overlapping", VerifC06_Overlapping)
}

func verifExec(c Client, run string, n int64) ExecutionResult {
	return c.Execute(schema.Input{RunID: run, ID: "inc", InputData: map[string]any{"n": n}}, nil, nil)
}

func verifCheckResult(tag string, res ExecutionResult, n int64) {
	verifAssert(tag+"/no-error", res.Error == nil)
	if res.Error == nil {
		m, ok := res.OutputData.(map[any]any)
		verifAssert(tag+"/own-result", ok && res.OutputID == "ok" && verifWireInt(m["o"]) == n+1)
	}
}

// two executes one after the other on one client, then Close
func VerifC06_BackToBack() {
	calls := 0
	sess, err := verifStartSession(verifPluginSchema(&calls))
	verifAssert("C06/b2b/handshake", err == nil)
	if err != nil {
		return
	}
	verifReach("C06/b2b/started")
	verifKnown("C06/read-loop-handover-lost-wakeup", true)
	r1 := verifExec(sess.client, "r1", 1)
	verifCheckResult("C06/b2b/first", r1, 1)
	r2 := verifExec(sess.client, "r2", 5)
	verifCheckResult("C06/b2b/second", r2, 5)
	cerr := sess.client.Close()
	verifAssert("C06/b2b/close", cerr == nil)
	sess.srvDone.Wait()
	verifAssert("C06/b2b/handler-ran-twice", calls == 2)
	verifReach("C06/b2b/end")
}

// two executes at the same time
func VerifC06_Overlapping() {
	calls := 0
	sess, err := verifStartSession(verifPluginSchema(&calls))
	verifAssert("C06/overlap/handshake", err == nil)
	if err != nil {
		return
	}
	verifReach("C06/overlap/started")
	verifKnown("C06/read-loop-handover-lost-wakeup", true)
	var wg sync.WaitGroup
	var r1, r2 ExecutionResult
	wg.Add(2)
	go func() { defer wg.Done(); r1 = verifExec(sess.client, "r1", 1) }()
	go func() { defer wg.Done(); r2 = verifExec(sess.client, "r2", 5) }()
	wg.Wait()
	verifCheckResult("C06/overlap/first", r1, 1)
	verifCheckResult("C06/overlap/second", r2, 5)
	cerr := sess.client.Close()
	verifAssert("C06/overlap/close", cerr == nil)
	sess.srvDone.Wait()
	verifReach("C06/overlap/end")
}
