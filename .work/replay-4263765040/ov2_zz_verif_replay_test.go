package atp

import (
	"encoding/json"
	"fmt"
	"os"
	"runtime/debug"
	"strings"
	"testing"
)

type verifVector struct {
	ID     string            `json:"id"`
	Entry  string            `json:"entry"`
	Tier   int               `json:"tier"`
	Inputs map[string]string `json:"inputs"`
	Repeat int               `json:"repeat"`
}

type verifOutcome struct {
	ID      string       `json:"id"`
	Events  []verifEvent `json:"events"`
	Panic   string       `json:"panic,omitempty"`
	Stack   string       `json:"stack,omitempty"`
	Dead    bool         `json:"dead,omitempty"`
	Missing []string     `json:"missing,omitempty"`
	Runs    []verifOutcome `json:"runs,omitempty"`
}

func verifRunOne(v verifVector) (out verifOutcome) {
	out.ID = v.ID
	verifVec, verifLog, verifTierVal, verifMissing = v.Inputs, nil, v.Tier, nil
	f, ok := verifEntries[v.Entry]
	if !ok {
		out.Panic = "verif: unknown entry " + v.Entry
		return
	}
	defer func() {
		out.Events = verifLog
		out.Missing = verifMissing
		if r := recover(); r != nil {
			if _, isA := r.(verifAssumeFailed); isA {
				out.Dead = true
				return
			}
			out.Panic = fmt.Sprint(r)
			if out.Panic == "" {
				out.Panic = "panic"
			}
			st := string(debug.Stack())
			if len(st) > 6000 {
				st = st[:6000]
			}
			out.Stack = st
		}
	}()
	f()
	return
}

func TestVerifReplay(t *testing.T) {
	in := os.Getenv("VERIF_REPLAY_IN")
	if in == "" {
		t.Skip("no VERIF_REPLAY_IN")
	}
	data, err := os.ReadFile(in)
	if err != nil {
		t.Fatal(err)
	}
	var vecs []verifVector
	if err := json.Unmarshal(data, &vecs); err != nil {
		t.Fatal(err)
	}
	outs := make([]verifOutcome, 0, len(vecs))
	for _, v := range vecs {
		o := verifRunOne(v)
		for i := 1; i < v.Repeat; i++ {
			o.Runs = append(o.Runs, verifRunOne(v))
		}
		outs = append(outs, o)
	}
	b, _ := json.Marshal(outs)
	if err := os.WriteFile(os.Getenv("VERIF_REPLAY_OUT"), b, 0o644); err != nil {
		t.Fatal(err)
	}
	_ = strings.TrimSpace
}
