#!/bin/bash
for s in C02-1:C02 C01-2:C01 C03-1:C03 C03-2:C03 C04-1:C04 C04-2:C04; do
  id=${s%%:*}; prop=${s##*:}
  /verif/tools/seed_eval.sh /tmp/wt-$prop/seed/$id $id $prop -maxtime 6m 2>&1 | tail -5
done
