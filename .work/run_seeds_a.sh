#!/bin/bash
for s in C04-1:C04 C11-1:C11 C11-2:C11 C13-1:C13 C13-2:C13 C14-1:C14 C14-2:C14 C16-1:C16 C16-2:C16 C17-1:C17 C17-2:C17; do
  id=${s%%:*}; prop=${s##*:}
  /verif/tools/seed_eval.sh /tmp/wt-$prop/seed/$id $id $prop -maxtime 8m 2>&1 | tail -7
done
