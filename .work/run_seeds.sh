#!/bin/bash
for s in C02-1:C02 C02-2:C02 C01-1:C01 C01-2:C01 C03-1:C03 C03-2:C03 C04-1:C04 C04-2:C04 C12-1:C12 C12-2:C12 C15-1:C15 C15-2:C15; do
  id=${s%%:*}; prop=${s##*:}
  /verif/tools/seed_eval.sh /tmp/wt-$prop/seed/$id $id $prop -maxtime 6m 2>&1 | tail -7
done
