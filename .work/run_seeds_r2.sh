#!/bin/bash
ev() { /verif/tools/seed_eval.sh $1 $2 $3 -maxtime 8m 2>&1 | grep "^seed\|does not apply"; }
ev /tmp/wt2-C04/seed/C04-1 C04-3 C04
ev /tmp/wt2-C04/seed/C04-2 C04-4 C04
ev /tmp/wt2-C10/seed/C10-1 C10-3 C10
ev /tmp/wt2-C10/seed/C10-2 C10-4 C10
ev /tmp/wt2-C08/seed/C08-1 C08-3 C08
ev /tmp/wt2-C08/seed/C08-2 C08-4 C08
ev /tmp/wt2-C06/seed/C06-1 C06-3 C06
ev /tmp/wt2-C06/seed/C06-2 C06-4 C06
