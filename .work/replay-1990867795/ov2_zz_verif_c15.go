package schema

// C15 — compatibility checking: bounds logic of int/float/string/map, reflexivity, kind soundness.

func init() {
	verifRegister("VerifC15_IntBounds", VerifC15_IntBounds)
}

// specDisjointInt states directly when two integer ranges cannot overlap.
func specDisjointInt(sMin, sMax, oMin, oMax *int64) bool {
	d := false
	if sMax != nil && oMin != nil {
		d = vOr(d, *oMin > *sMax)
	}
	if sMin != nil && oMax != nil {
		d = vOr(d, *oMax < *sMin)
	}
	return d
}

func VerifC15_IntBounds() {
	sMin, sMax := verifOptInt64("sMin"), verifOptInt64("sMax")
	oMin, oMax := verifOptInt64("oMin"), verifOptInt64("oMax")
	if sMin != nil && sMax != nil {
		verifAssume(*sMin <= *sMax)
	}
	if oMin != nil && oMax != nil {
		verifAssume(*oMin <= *oMax)
	}
	self := NewIntSchema(sMin, sMax, nil)
	other := NewIntSchema(oMin, oMax, nil)
	err := self.ValidateCompatibility(other)
	disjoint := specDisjointInt(sMin, sMax, oMin, oMax)
	verifAssert("C15/int/reject-disjoint", vImplies(disjoint, err != nil))
	verifAssert("C15/int/accept-overlap", vImplies(vNot(disjoint), err == nil))
	verifObserve("err", err != nil)
	verifReach("C15/int/end")
}
