package atp

import (
	"encoding/json"
	"fmt"
	"os"
	"runtime"
	"runtime/debug"
	"strings"
	"testing"
	"time"
)

type verifVector struct {
	ID     string            `json:"id"`
	Entry  string            `json:"entry"`
	Tier   int               `json:"tier"`
	Inputs map[string]string `json:"inputs"`
	Repeat int               `json:"repeat"`
}

type verifOutcome struct {
	ID      string       `json:"id"`
	Events  []verifEvent `json:"events"`
	Panic   string       `json:"panic,omitempty"`
	Stack   string       `json:"stack,omitempty"`
	Dead    bool         `json:"dead,omitempty"`
	Missing []string     `json:"missing,omitempty"`
	Runs    []verifOutcome `json:"runs,omitempty"`
	Crash   string       `json:"crash,omitempty"`
}

// verifRunWatched runs one vector under a watchdog: a vector that does not finish is reported as such and ends the
// batch (its goroutines cannot be stopped); the driver re-runs the vectors that have no outcome yet.
func verifRunWatched(v verifVector) (verifOutcome, bool) {
	done := make(chan verifOutcome, 1)
	go func() { done <- verifRunOne(v) }()
	limit := 25 * time.Second
	if s := os.Getenv("VERIF_REPLAY_VECTIMEOUT"); s != "" {
		if d, err := time.ParseDuration(s); err == nil {
			limit = d
		}
	}
	select {
	case o := <-done:
		return o, true
	case <-time.After(limit):
		buf := make([]byte, 1<<16)
		n := runtime.Stack(buf, true)
		st := string(buf[:n])
		if len(st) > 4000 {
			st = st[:4000]
		}
		return verifOutcome{ID: v.ID, Crash: "native run does not finish within " + limit.String() + " (hang) | " + st}, false
	}
}

func verifRunOne(v verifVector) (out verifOutcome) {
	out.ID = v.ID
	verifVec, verifLog, verifTierVal, verifMissing = v.Inputs, nil, v.Tier, nil
	f, ok := verifEntries[v.Entry]
	if !ok {
		out.Panic = "verif: unknown entry " + v.Entry
		return
	}
	defer func() {
		out.Events = verifLog
		out.Missing = verifMissing
		if r := recover(); r != nil {
			if _, isA := r.(verifAssumeFailed); isA {
				out.Dead = true
				return
			}
			out.Panic = fmt.Sprint(r)
			if out.Panic == "" {
				out.Panic = "panic"
			}
			st := string(debug.Stack())
			if len(st) > 6000 {
				st = st[:6000]
			}
			out.Stack = st
		}
	}()
	f()
	return
}

func TestVerifReplay(t *testing.T) {
	in := os.Getenv("VERIF_REPLAY_IN")
	if in == "" {
		t.Skip("no VERIF_REPLAY_IN")
	}
	data, err := os.ReadFile(in)
	if err != nil {
		t.Fatal(err)
	}
	var vecs []verifVector
	if err := json.Unmarshal(data, &vecs); err != nil {
		t.Fatal(err)
	}
	outs := make([]verifOutcome, 0, len(vecs))
vectors:
	for _, v := range vecs {
		o, ok := verifRunWatched(v)
		if !ok {
			outs = append(outs, o)
			break
		}
		for i := 1; i < v.Repeat; i++ {
			o2, ok2 := verifRunWatched(v)
			if !ok2 {
				o.Runs = append(o.Runs, o2)
				outs = append(outs, o)
				break vectors
			}
			o.Runs = append(o.Runs, o2)
		}
		outs = append(outs, o)
	}
	b, _ := json.Marshal(outs)
	if err := os.WriteFile(os.Getenv("VERIF_REPLAY_OUT"), b, 0o644); err != nil {
		t.Fatal(err)
	}
	_ = strings.TrimSpace
}
