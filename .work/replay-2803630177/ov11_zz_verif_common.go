package schema

import (
	"errors"
	"math"
)

// Shared harness helpers: generators for raw decoder values in every Go representation, with an independent
// statement of what each denotes ("the SDK's fixed lenient conversions" of the property text).

func verifOptInt64(name string) *int64 {
	if nondetBool(name + "?") {
		v := nondetInt64(name)
		return &v
	}
	return nil
}

// a well-formed schema does not declare NaN as a bound
func verifOptFloat64(name string) *float64 {
	if nondetBool(name + "?") {
		v := nondetFloat64(name)
		verifAssume(v == v)
		return &v
	}
	return nil
}

const (
	repInt64 = iota
	repUint64
	repInt
	repUint
	repInt32
	repUint32
	repInt16
	repUint16
	repInt8
	repUint8
	repFloat64
	repFloat32
	repBool
	repCount
)

var verifRepNames = [...]string{"int64", "uint64", "int", "uint", "int32", "uint32", "int16", "uint16", "int8", "uint8", "float64", "float32", "bool"}

// verifRawNumber returns a raw value in representation rep with a fully symbolic payload, and what it denotes:
// asInt (valid iff intOK) under the integer conversions, asFloat under the float conversions.
func verifRawNumber(name string, rep int) (raw any, intOK bool, asInt int64, asFloat float64) {
	switch rep {
	case repInt64:
		v := nondetInt64(name)
		return v, true, v, float64(v)
	case repUint64:
		v := nondetUint64(name)
		return v, v <= math.MaxInt64, int64(v), float64(v)
	case repInt:
		v := nondetInt(name)
		return v, true, int64(v), float64(v)
	case repUint:
		v := nondetUint(name)
		return v, v <= math.MaxInt64, int64(v), float64(v)
	case repInt32:
		v := nondetInt32(name)
		return v, true, int64(v), float64(v)
	case repUint32:
		v := nondetUint32(name)
		return v, true, int64(v), float64(v)
	case repInt16:
		v := nondetInt16(name)
		return v, true, int64(v), float64(v)
	case repUint16:
		v := nondetUint16(name)
		return v, true, int64(v), float64(v)
	case repInt8:
		v := nondetInt8(name)
		return v, true, int64(v), float64(v)
	case repUint8:
		v := nondetUint8(name)
		return v, true, int64(v), float64(v)
	case repFloat64:
		v := nondetFloat64(name)
		// denotes an integer iff it is not NaN, lies in [-2^63, 2^63) and has no fractional part
		ok := vAnd(vAnd(v >= -9223372036854775808.0, v < 9223372036854775808.0), v == math.Trunc(v))
		return v, ok, int64(v), v
	case repFloat32:
		v := nondetFloat32(name)
		w := float64(v)
		ok := vAnd(vAnd(w >= -9223372036854775808.0, w < 9223372036854775808.0), w == math.Trunc(w))
		return v, ok, int64(w), w
	case repBool:
		v := nondetBool(name)
		return v, true, vIteInt64(v, 1, 0), vIteFloat64(v, 1, 0)
	}
	panic("bad representation")
}

func verifIsConstraintError(err error) bool {
	var ce *ConstraintError
	return errors.As(err, &ce)
}

func verifErrPath(err error) []string {
	var ce *ConstraintError
	if errors.As(err, &ce) {
		return ce.Path
	}
	return nil
}

func verifSamePath(a []string, b ...string) bool {
	if len(a) != len(b) {
		return false
	}
	for i := range a {
		if a[i] != b[i] {
			return false
		}
	}
	return true
}

func verifNm(base string, i int) string {
	return base + string(rune('0'+i))
}
