package atp

import (
	"errors"
	"io"
)

// Environment of the ATP harnesses. Natively these are real io.Pipe ends carrying real CBOR; the engine replaces
// them by message-granularity pipes (one Encode = one message) and intercepts the functions below by name.

func verifNewPipe() (io.ReadCloser, io.WriteCloser) {
	r, w := io.Pipe()
	return r, &verifSerialProbe{WriteCloser: w}
}

// verifSerialProbe is the native oracle for "writes to one stream are serialised": io.Writer does not promise that
// concurrent Write calls are atomic (io.Pipe happens to), so two Write calls that no synchronisation orders are a
// defect. The probe touches a plain field on every Write: under the race detector (how the engine's report is
// confirmed) two unordered writers are reported as a data race on it, serialised writers are not.
type verifSerialProbe struct {
	io.WriteCloser
	writes int
}

func (p *verifSerialProbe) Write(b []byte) (int, error) {
	p.writes++
	return p.WriteCloser.Write(b)
}

// verifPipeGarbage makes the stream turn to garbage at this point (the reader's decoder fails from here on).
func verifPipeGarbage(w io.WriteCloser) {
	go func() {
		// everything after this point of the stream is garbage, for as long as anybody reads
		for {
			if _, err := w.Write([]byte{0xff, 0xff, 0xff, 0xff}); err != nil {
				return
			}
		}
	}()
}

// verifPipeFailReads makes every further read fail with an I/O error.
func verifPipeFailReads(r io.ReadCloser) {
	_ = r.(*io.PipeReader).CloseWithError(errors.New("injected read error"))
}

// verifEncodesUnlocked: number of Encode calls made with no mutex held (engine side instrumentation).
func verifEncodesUnlocked() int { return 0 }

// verifEncodeLockBegin/Check: from Begin on, every Encode must happen with a mutex held (engine: lockset; natively the
// race detector decides when the run is repeated under -race).
func verifEncodeLockBegin()          {}
func verifEncodeLockCheck(id string) {}

type verifChan struct {
	r io.ReadCloser
	w io.WriteCloser
}

func (c *verifChan) Read(p []byte) (int, error)  { return c.r.Read(p) }
func (c *verifChan) Write(p []byte) (int, error) { return c.w.Write(p) }
func (c *verifChan) Close() error {
	_ = c.r.Close()
	return c.w.Close()
}

func verifNm(base string, i int) string { return base + string(rune('0'+i)) }
