// Harness API, native side: the same harness source that the engine executes symbolically is compiled natively
// with this file; nondet values come from a replay vector, assertions and observations are logged.
// The engine intercepts every function declared here (by name) and never executes these bodies.
package atp

import (
	"fmt"
	"math"
	"reflect"
	"sort"
	"strconv"
	"strings"
	"sync"
	"time"
)

type verifEvent struct {
	Kind string `json:"kind"`
	ID   string `json:"id"`
	Val  string `json:"val"`
}

type verifAssumeFailed struct{}

var (
	verifVec     map[string]string
	verifLog     []verifEvent
	verifTierVal int
	verifEntries = map[string]func(){}
	verifMissing []string
)

func verifRegister(name string, f func()) { verifEntries[name] = f }

func verifGet(name string) uint64 {
	s, ok := verifVec[name]
	if !ok {
		verifMissing = append(verifMissing, name)
		return 0
	}
	v, err := strconv.ParseUint(s, 10, 64)
	if err != nil {
		panic("verif: bad vector value for " + name + ": " + s)
	}
	return v
}

func nondetBool(name string) bool       { return verifGet(name) != 0 }
func nondetInt8(name string) int8       { return int8(verifGet(name)) }
func nondetInt16(name string) int16     { return int16(verifGet(name)) }
func nondetInt32(name string) int32     { return int32(verifGet(name)) }
func nondetInt64(name string) int64     { return int64(verifGet(name)) }
func nondetInt(name string) int         { return int(verifGet(name)) }
func nondetUint8(name string) uint8     { return uint8(verifGet(name)) }
func nondetUint16(name string) uint16   { return uint16(verifGet(name)) }
func nondetUint32(name string) uint32   { return uint32(verifGet(name)) }
func nondetUint64(name string) uint64   { return verifGet(name) }
func nondetUint(name string) uint       { return uint(verifGet(name)) }
func nondetFloat32(name string) float32 { return math.Float32frombits(uint32(verifGet(name))) }
func nondetFloat64(name string) float64 { return math.Float64frombits(verifGet(name)) }

// nondetChoice returns an arbitrary value in [0,n); every value is explored.
func nondetChoice(name string, n int) int { return int(verifGet(name)) % n }

// nondetStringFrom returns one of the given strings (a solver variable, not a fork).
func nondetStringFrom(name string, alts ...string) string {
	if len(alts) == 1 {
		return alts[0]
	}
	return alts[int(verifGet(name))%len(alts)]
}

// nondetStringLen returns a string of arbitrary length <= max whose content is irrelevant.
func nondetStringLen(name string, max int) string {
	return strings.Repeat("x", int(verifGet(name)))
}

// nondetDigits returns a string of exactly n arbitrary decimal digits.
func nondetDigits(name string, n int) string {
	b := make([]byte, n)
	for i := range b {
		b[i] = byte(verifGet(fmt.Sprintf("%s[%d]", name, i)))
	}
	return string(b)
}

// nondetBytes returns a string of exactly n arbitrary printable ASCII bytes.
func nondetBytes(name string, n int) string { return nondetDigits(name, n) }

func verifAssume(c bool) {
	if !c {
		panic(verifAssumeFailed{})
	}
}
func verifAssert(id string, c bool) {
	verifLog = append(verifLog, verifEvent{"assert", id, strconv.FormatBool(c)})
}
// verifNativeAssert records a check that only the native run can make (stub contracts against the real library).
func verifNativeAssert(id string, c bool) {
	verifLog = append(verifLog, verifEvent{"nativeassert", id, strconv.FormatBool(c)})
}
func verifReach(id string) { verifLog = append(verifLog, verifEvent{"reach", id, "true"}) }
func verifCover(id string) { verifLog = append(verifLog, verifEvent{"cover", id, "true"}) }

// verifKnown marks the class of inputs of a recorded known finding; it returns c.
func verifKnown(id string, c bool) bool { return c }

func vAnd(a, b bool) bool           { return a && b }
func vOr(a, b bool) bool            { return a || b }
func vNot(a bool) bool              { return !a }
func vImplies(a, b bool) bool       { return !a || b }
func vIff(a, b bool) bool           { return a == b }
func vIteBool(c, a, b bool) bool    { if c { return a }; return b }
func vIteInt64(c bool, a, b int64) int64 { if c { return a }; return b }
func vIteFloat64(c bool, a, b float64) float64 { if c { return a }; return b }

func verifTier() int               { return verifTierVal }
func verifAllMapOrders(on bool)    {}
func verifFreeze(v any)            {}
func verifFreezeSchema(v any)      {}
func verifFreezeGlobals()          {}
func verifFrozenWrites() int       { return 0 }
func verifIsSymbolicEngine() bool  { return false }
func verifConcretize(s string) string { return s }
func verifSchedBound(n int)        {}
func verifSchedFreeBound(n int)    {}

// verifSettle waits until every other goroutine is blocked or finished (natively: a short sleep).
func verifSettle() { time.Sleep(150 * time.Millisecond) }

// verifLeakCheck(true): goroutines still blocked when the harness returns are a violation (engine side).
func verifLeakCheck(on bool) {}

// verifSchedQuiet(true) suspends schedule exploration (set-up phases run under one deterministic schedule).
func verifSchedQuiet(on bool) {}
func verifYield()                  {}

// verifSharedBegin declares v (and all package-level state) shared between goroutines from here on.
func verifSharedBegin(v any) {}

// verifConcurrently runs f(0..n-1) at the same time (natively: real goroutines released together; the race
// detector decides). The engine runs the calls one after the other and collects their write sets.
func verifConcurrently(n int, f func(i int)) {
	var wg sync.WaitGroup
	start := make(chan struct{})
	for i := 0; i < n; i++ {
		wg.Add(1)
		go func(i int) {
			defer wg.Done()
			<-start
			f(i)
		}(i)
	}
	close(start)
	wg.Wait()
}

// verifSharedCheck: no write to shared state happened outside a lock since verifSharedBegin (engine side).
func verifSharedCheck(id string) {}

func verifObserve(name string, v any) {
	verifFlatten(name, reflect.ValueOf(v), 0, true, func(n, val string) {
		verifLog = append(verifLog, verifEvent{"observe", n, val})
	})
}

// verifDeepEqual: structural equality of the canonical flattenings (NaN equals NaN, nil slice equals empty).
func verifDeepEqual(a, b any) bool {
	var fa, fb []string
	verifFlatten("", reflect.ValueOf(a), 0, true, func(n, v string) { fa = append(fa, n+"="+v) })
	verifFlatten("", reflect.ValueOf(b), 0, true, func(n, v string) { fb = append(fb, n+"="+v) })
	if len(fa) != len(fb) {
		return false
	}
	for i := range fa {
		if fa[i] != fb[i] {
			return false
		}
	}
	return true
}

func verifNormType(s string) string {
	s = strings.ReplaceAll(s, "interface {}", "any")
	s = strings.ReplaceAll(s, "interface{}", "any")
	if i := strings.Index(s, "["); i > 0 && !strings.HasPrefix(s, "map[") && !strings.HasPrefix(s, "[]") && !strings.HasPrefix(s, "*") {
		s = s[:i]
	}
	return s
}

func verifScalar(v reflect.Value) (string, bool) {
	switch v.Kind() {
	case reflect.Bool:
		return strconv.FormatBool(v.Bool()), true
	case reflect.Int, reflect.Int64:
		return "bv64:" + strconv.FormatUint(uint64(v.Int()), 10), true
	case reflect.Int8:
		return "bv8:" + strconv.FormatUint(uint64(uint8(v.Int())), 10), true
	case reflect.Int16:
		return "bv16:" + strconv.FormatUint(uint64(uint16(v.Int())), 10), true
	case reflect.Int32:
		return "bv32:" + strconv.FormatUint(uint64(uint32(v.Int())), 10), true
	case reflect.Uint, reflect.Uint64, reflect.Uintptr:
		return "bv64:" + strconv.FormatUint(v.Uint(), 10), true
	case reflect.Uint8:
		return "bv8:" + strconv.FormatUint(v.Uint(), 10), true
	case reflect.Uint16:
		return "bv16:" + strconv.FormatUint(v.Uint(), 10), true
	case reflect.Uint32:
		return "bv32:" + strconv.FormatUint(v.Uint(), 10), true
	case reflect.Float64:
		f := v.Float()
		if f != f {
			return "fp64:NaN", true
		}
		return fmt.Sprintf("fp64:%#x", math.Float64bits(f)), true
	case reflect.Float32:
		f := float32(v.Float())
		if f != f {
			return "fp32:NaN", true
		}
		return fmt.Sprintf("fp32:%#x", math.Float32bits(f)), true
	case reflect.String:
		return "s:" + v.String(), true
	}
	return "", false
}

func verifKeyString(v reflect.Value) string {
	if v.Kind() == reflect.Interface {
		if v.IsNil() {
			return "nil"
		}
		e := v.Elem()
		return verifNormType(e.Type().String()) + "/" + verifKeyString(e)
	}
	if s, ok := verifScalar(v); ok {
		return s
	}
	if v.Kind() == reflect.Struct {
		parts := make([]string, v.NumField())
		for i := range parts {
			parts[i] = verifKeyString(v.Field(i))
		}
		return "{" + strings.Join(parts, ",") + "}"
	}
	return fmt.Sprintf("?%v", v.Kind())
}

func verifFlatten(prefix string, v reflect.Value, depth int, top bool, emit func(name, val string)) {
	if depth > 40 {
		emit(prefix, "<deep>")
		return
	}
	if !v.IsValid() {
		emit(prefix, "nil")
		return
	}
	if top {
		if v.Type().String() == "*reflect.rtype" {
			emit(prefix+".type", "reflect.Type")
			if depth == 0 && v.CanInterface() {
				emit(prefix, verifNormType(v.Interface().(reflect.Type).String()))
			} else {
				emit(prefix, "<reflect.Type>")
			}
			return
		}
		emit(prefix+".type", verifNormType(v.Type().String()))
	}
	if s, ok := verifScalar(v); ok {
		emit(prefix, s)
		return
	}
	switch v.Kind() {
	case reflect.Interface:
		if v.IsNil() {
			emit(prefix, "nil")
			return
		}
		verifFlatten(prefix, v.Elem(), depth+1, true, emit)
	case reflect.Pointer:
		if v.IsNil() {
			emit(prefix, "nil")
			return
		}
		if v.Elem().Kind() == reflect.Struct && depth > 6 {
			emit(prefix, "<ptr>")
			return
		}
		verifFlatten(prefix, v.Elem(), depth+1, false, emit)
	case reflect.Slice, reflect.Array:
		emit(prefix+".len", "bv64:"+strconv.Itoa(v.Len()))
		for i := 0; i < v.Len(); i++ {
			verifFlatten(fmt.Sprintf("%s[%d]", prefix, i), v.Index(i), depth+1, false, emit)
		}
	case reflect.Map:
		emit(prefix+".len", "bv64:"+strconv.Itoa(v.Len()))
		type kv struct {
			k string
			v reflect.Value
		}
		var kvs []kv
		for _, k := range v.MapKeys() {
			kvs = append(kvs, kv{verifKeyString(k), v.MapIndex(k)})
		}
		sort.Slice(kvs, func(i, j int) bool { return kvs[i].k < kvs[j].k })
		for _, e := range kvs {
			verifFlatten(prefix+"{"+e.k+"}", e.v, depth+1, false, emit)
		}
	case reflect.Struct:
		t := v.Type()
		switch t.PkgPath() + "." + t.Name() {
		case "regexp.Regexp", "sync.Mutex", "sync.RWMutex", "sync.WaitGroup", "sync.Once", "time.Time":
			emit(prefix, "<opaque>")
			return
		}
		for i := 0; i < v.NumField(); i++ {
			verifFlatten(prefix+"."+t.Field(i).Name, v.Field(i), depth+1, false, emit)
		}
	case reflect.Func:
		if v.IsNil() {
			emit(prefix, "nil")
		} else {
			emit(prefix, "func")
		}
	case reflect.Chan:
		emit(prefix, "chan")
	default:
		emit(prefix, "<"+v.Kind().String()+">")
	}
}
