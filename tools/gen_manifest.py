#!/usr/bin/env python3
# Regenerates /verif/MANIFEST.json from the table below (kept in one place so that the claimed set, the
# not_applicable list and the notes stay consistent).
import json, sys
props=[json.loads(l)['id'] for l in open('/verif/properties.jsonl')]
TECH="solver-based bounded symbolic execution of the real code: go/ssa of the current tree interpreted with symbolic scalars, assertions decided by cvc5 (z3 cross-check in the thorough tier), every path witness and counterexample replayed on the natively compiled code"
claims={}
def claim(pid, text, note, ref):
    claims[pid]=dict(text=text,note=note,ref=ref)
na={}
exec(open('/verif/tools/claims.py').read())
m={
 "version":1,
 "setup_cmd":"cd /verif/engine && GOFLAGS=-mod=mod GOPROXY=off GOSUMDB=off GOTOOLCHAIN=local go build -o /verif/bin/gosmt .",
 "hooks":{"guard":"verif","enable":"no hooks in /repo: harnesses and replay tests are injected as go/packages and go-build overlays (files /repo/<pkg>/zz_verif_*.go exist only virtually); nothing is built with the tag","baseline_off_cmd":"cd /repo && GOFLAGS=-mod=mod go test -vet=off -count=1 ./... && cd cmd/arcaflow-codegen && GOFLAGS=-mod=mod go test -vet=off -count=1 ./...","source_commits":[],"add_only":True},
 "engines":[{"name":"gosmt","path":"/verif/engine","serves_properties":sorted(claims),"kind_free_text":"symbolic executor for Go over go/ssa (x/tools v0.29.0) emitting SMT-LIB2 to cvc5/z3; native replay through go test -overlay"}],
 "checks":[],
 "notes":"See DESIGN.md. One engine (gosmt) decides every claimed property; ./check <id> [--tier quick|thorough] [--replay file]. Exit 0: held on everything explored; 1: VIOLATION line(s); 2: usage/load error; 3: broken check (vacuous harness or engine/native mismatch).",
 "not_applicable":[]
}
for p in props:
    if p in claims:
        c=claims[p]
        m["checks"].append({"property_id":p,"quick_cmd":f"./check {p} --tier quick","thorough_cmd":f"./check {p} --tier thorough","evidence_file":f"/verif/evidence/{p}.json","replay_cmd_template":f"./check {p} --replay {{path}}","engine":"gosmt",
          "level_claimed":{"category":"model_checking","text":c['text'],"design_ref":c['ref']+" (plan); §8.2–§8.3 and §8.7–§8.8 (as built)"},
          "level_note":c['note'],"technique":TECH})
    else:
        m["not_applicable"].append({"property_id":p,"reason":na.get(p,"check not built yet (work in progress); no claim is made")})
json.dump(m,open('/verif/MANIFEST.json','w'),indent=1)
print("claimed:",sorted(claims),"n/a:",[x["property_id"] for x in m["not_applicable"]])
