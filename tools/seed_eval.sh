#!/bin/bash
# usage: seed_eval.sh <seed-src-dir> <seed-id> <property> [check args...]
# 1. confirms the seeded change in a scratch worktree (suite passes with it, demo fails with it, demo passes without)
# 2. copies it to /verif/seeded/<seed-id>/ and runs ./check <property> with the patch applied to /repo, then reverts.
set -u
export GOFLAGS=-mod=mod GOPROXY=off GOSUMDB=off GOTOOLCHAIN=local
src="$1"; id="$2"; prop="$3"; shift 3
dst=/verif/seeded/$id
mkdir -p "$dst"
cp "$src/patch.diff" "$dst/patch.diff"
cp "$src"/demo_test.go "$dst/demo_test.go" 2>/dev/null
cp "$src/README.md" "$dst/README.md" 2>/dev/null
pkgdir=$(grep -m1 '^+++ b/' "$dst/patch.diff" | sed 's#^+++ b/##' | xargs dirname)
wt=$(mktemp -d /tmp/seedwt-XXXX); rmdir "$wt"
git -C /repo worktree add -q --detach "$wt" HEAD || exit 2
res_suite=fail; res_demo_with=unknown; res_demo_without=unknown
( cd "$wt" && git apply "$dst/patch.diff" ) || { echo "patch does not apply"; git -C /repo worktree remove --force "$wt"; exit 2; }
( cd "$wt" && go build ./... && go test -vet=off -count=1 ./... >/tmp/seed_suite_$id.log 2>&1 && cd cmd/arcaflow-codegen && go build ./... && go test -vet=off -count=1 ./... >>/tmp/seed_suite_$id.log 2>&1 ) && res_suite=pass
# the demo goes next to the package its package clause names (it may differ from the patched package)
demopkg=$(grep -m1 '^package ' "$dst/demo_test.go" | awk '{print $2}' | sed 's/_test$//')
case "$demopkg" in
  atp) demodir=atp;;
  schema) demodir=schema;;
  main) demodir=cmd/arcaflow-codegen;;
  *) demodir=$pkgdir;;
esac
cp "$dst/demo_test.go" "$wt/$demodir/zz_seed_demo_test.go"
( cd "$wt/$demodir" && go test -vet=off -count=1 -run '^TestSeedDemo$' . >/tmp/seed_demo_with_$id.log 2>&1 ) && res_demo_with=pass || res_demo_with=fail
( cd "$wt" && git checkout -q -- . )
( cd "$wt/$demodir" && go test -vet=off -count=1 -run '^TestSeedDemo$' . >/tmp/seed_demo_without_$id.log 2>&1 ) && res_demo_without=pass || res_demo_without=fail
git -C /repo worktree remove --force "$wt"
echo "seed $id: suite_with_patch=$res_suite demo_with_patch=$res_demo_with demo_without_patch=$res_demo_without"
# run the check against a scratch worktree with the patch applied (VERIF_REPO), so that /repo is not disturbed;
# equivalent to: git -C /repo apply patch; ./check; git -C /repo checkout -- .
wt2=$(mktemp -d /tmp/seedrun-XXXX); rmdir "$wt2"
git -C /repo worktree add -q --detach "$wt2" HEAD || exit 2
( cd "$wt2" && git apply "$dst/patch.diff" ) || { echo "patch does not apply"; git -C /repo worktree remove --force "$wt2"; exit 2; }
( cd /verif && VERIF_REPO="$wt2" timeout -k 5 1500 ./check "$prop" -noevidence "$@" > "$dst/check_output.txt" 2>&1 ); rc=$?
sed -i "s#$wt2#/repo#g" "$dst/check_output.txt"
git -C /repo worktree remove --force "$wt2"
nviol=$(grep -c '^VIOLATION' "$dst/check_output.txt")
echo "seed $id: check $prop exit=$rc violations=$nviol"
grep -m3 '^  violation' "$dst/check_output.txt" | cut -c1-300
python3 - "$id" "$prop" "$pkgdir" "$res_suite" "$res_demo_with" "$res_demo_without" "$rc" "$nviol" "$src" "$*" <<'EOPY'
import json, sys
id_, prop, pkgdir, suite, dw, dwo, rc, nviol, src, extra = sys.argv[1:11]
notes = json.load(open('/verif/tools/seed_notes.json')).get(id_, {})
meta = {"seed": id_, "property": prop, "package_dir": pkgdir,
  "what": notes.get("what", "see README.md"),
  "needs": notes.get("needs", "see README.md"),
  "confirmed": {"suite_passes_with_patch": suite, "demo_with_patch": dw, "demo_without_patch": dwo,
     "how": "scratch worktree of /repo HEAD: git apply patch.diff; go build ./... && go test -vet=off -count=1 ./... ; demo_test.go copied next to the package as zz_seed_demo_test.go and run with -run ^TestSeedDemo$ with and without the patch"},
  "check": {"cmd": "./check %s -noevidence %s (against a scratch worktree with the patch applied, VERIF_REPO; same as git -C /repo apply patch.diff; ./check; git -C /repo checkout -- .)" % (prop, extra), "exit": int(rc), "violation_lines": int(nviol),
     "incomplete": "INCOMPLETE" in open('/verif/seeded/%s/check_output.txt' % id_).read()},
  "ran": "tools/seed_eval.sh %s %s %s %s" % (src, id_, prop, extra)}
json.dump(meta, open('/verif/seeded/%s/meta.json' % id_, 'w'), indent=1)
EOPY
