#!/usr/bin/env python3
# Prints the markdown table of seeded changes (DESIGN.md §8.8) from /verif/seeded/*/meta.json and check_output.txt.
import json, glob, os, re
rows=[]
for d in sorted(glob.glob('/verif/seeded/*/')):
    mp=os.path.join(d,'meta.json')
    if not os.path.exists(mp): continue
    m=json.load(open(mp))
    out=open(os.path.join(d,'check_output.txt')).read() if os.path.exists(os.path.join(d,'check_output.txt')) else ''
    ids=[]
    for l in out.splitlines():
        mm=re.match(r'\s+violation: (\S+) (\S+) (\S+?):? ',l)
        if mm:
            k=mm.group(1).replace('Verif','')+': '+(mm.group(3) if mm.group(2)=='assert' else mm.group(2))
            if k not in ids: ids.append(k)
    what=m.get('what','')
    caught='**caught**' if m['check']['exit']==1 and m['check']['violation_lines']>0 else ('missed' if m['check']['exit']==0 else 'exit %s'%m['check']['exit'])
    rows.append((m['seed'],m['property'],what,m.get('needs',''),caught,'; '.join(ids[:3])))
print('| seed | change | needs, to manifest | result | reported by |')
print('|---|---|---|---|---|')
for r in rows:
    print('| %s | %s | %s | %s | %s |'%(r[0],r[2],r[3],r[4],r[5]))
