#!/usr/bin/env python3
# Rewrites DESIGN.md §8.8 (between the SEEDTABLE markers) from /verif/seeded/*/meta.json.
import subprocess, re
table = subprocess.check_output(['python3', '/verif/tools/seed_table.py']).decode()
intro = open('/verif/tools/seed_section_intro.md').read()
p = '/verif/DESIGN.md'
s = open(p).read()
block = '<!-- SEEDTABLE -->\n' + intro + '\n' + table + '\n<!-- /SEEDTABLE -->'
if '<!-- /SEEDTABLE -->' in s:
    s = re.sub(r'<!-- SEEDTABLE -->.*?<!-- /SEEDTABLE -->', lambda m: block, s, flags=re.S)
else:
    s = s.replace('<!-- SEEDTABLE -->', block)
open(p, 'w').write(s)
