#!/usr/bin/env python3
# Rewrites the table of DESIGN.md §8.3 (between the BOUNDS markers) from /verif/evidence/*.json (last quick runs).
import json, glob, re, os
bound = {
 "C01": "13 raw representations, lists <= 2, maps <= 2, objects <= 3 properties, one-of 2 members (int/string keys, inlined or not), 1-3 byte UTF-8 strings, treat-empty-as-default with and without presence rules, full-width scalars",
 "C02": "all nil-combinations of bounds, full-width values, digit strings of 1..3 digits (+sign), strings as Len, multi-byte strings for rune counting, unit strings (PB+TB, 4 digits each) on an int schema",
 "C03": "N = 2 properties, rule slots <= 2 per list, all supplied subsets, defaults, disabled (also under the shorthand), one-of members under zero keys",
 "C04": "29 schema kinds (incl. int/float with units) x 45 data shapes (strings incl. blank and unit strings) x 4 operations, each followed by a second call; nested once under list/map/object/any",
 "C05": "<= 2 Executes (serial, back to back, overlapping, finishing together), 1 signal, v1 framing, 1 preemption (short and long pause)",
 "C06": "2 Executes + Close, signals both ways (0..2 from the peer, 1 to the step), 1..3 peer signals without a listener, errors without run id (alone / while busy), 1 preemption",
 "C07": "12 message kinds x 2 messages x 4 step behaviours x 2 endings; two-run conversation; end right after 1..2 work-starts; end of input while a step runs",
 "C08": "5 handshake faults; 11 reply scripts (2 with the stream left open) x <= 2 Executes (serial/overlapping); server gone with an unclosed signal channel",
 "C09": "10 scope families + plugin schema with 2 signal handlers and 2 emitters; each path interprets ~10^5 instructions of the meta-schema",
 "C10": "every node of 5 scope descriptions and 1 plugin description x 11 mutations; 10 grammar-free shapes",
 "C11": "CallStep over 13 representations x 3 step ids x 3 output ids x 3 data kinds; signals; 4 arrival orders x 4 step endings; 3-goroutine race; no initializer",
 "C12": "9 schema/argument families; maps <= 3 entries per order exploration; 3 x 2 call histories",
 "C13": "17 first-use operation families, Eraser lockset per shared location",
 "C14": "2-level scope tree, 3 references (inner, outer, non-root), 4 placements, 4 application orders",
 "C15": "16 nil-combinations x 4 kinds, 12 kinds reflexive, 12 x 12 kind pairs, enums <= 3, objects <= 3 properties",
 "C16": "quantities < 2^12 over 4 unit sets, 4 windows of 16 above 2^53, counts <= 5 digits, PB+TB running sum, metacharacter names, 9 malformed shapes; whole float quantities < 2^4 over 2 unit sets (short and long form)",
 "C17": "8 fault kinds x positions in 3 nested schemas, 5 presence-rule faults, 23 faults in a deep scope and 8 in struct-mapped objects x Unserialize/Validate",
 "C19": "0..2 objects x 0..2 properties x 5 type IDs x 3 argument forms x all map orders",
}
rows = []
for f in sorted(glob.glob('/verif/evidence/C*.json')):
    d = json.load(open(f)); c = d['coverage']
    pid = d['property_id']
    ents = ', '.join(e.replace('Verif' + pid + '_', '') for e in c.get('entries', []))
    rows.append('| %s | %s | %d | %d / %d | %d | %.0f s | %s | %s |' % (pid, ents, c['states'], c.get('discharged', 0), c.get('obligations', 0), c['traces_validated_against_impl'], d['wall_s'], 'yes' if c.get('exhaustive') else '**no**', bound.get(pid, '')))
hdr = '| id | entries | paths | obligations discharged / total | witnesses replayed | wall | exhaustive | bound explored (quick tier) |\n|---|---|---|---|---|---|---|---|\n'
block = '<!-- BOUNDS -->\n' + hdr + '\n'.join(rows) + '\n<!-- /BOUNDS -->'
p = '/verif/DESIGN.md'
s = open(p).read()
assert '<!-- BOUNDS -->' in s
s = re.sub(r'<!-- BOUNDS -->.*?<!-- /BOUNDS -->', lambda m: block, s, flags=re.S)
open(p, 'w').write(s)
print(len(rows), 'rows')
