#!/usr/bin/env python3
# usage: seed_prompt.py <property id> <worktree dir>  — prints the prompt given to a seeding sub-agent
# (only the property text and the scratch worktree; nothing from /verif).
import json, sys
pid, wt = sys.argv[1], sys.argv[2]
p = {json.loads(l)['id']: json.loads(l) for l in open('/verif/properties.jsonl')}[pid]
where = "(non-test .go files under %s/schema, %s/atp, ...)" % (wt, wt)
pkg = "(package schema or atp as appropriate — use the internal package name, not _test, if you need unexported access; test name TestSeedDemo)"
extra = ""
if pid == "C19":
    where = "(non-test .go files under %s/cmd/arcaflow-codegen — a separate Go module; its tests run with `cd %s/cmd/arcaflow-codegen && go test -vet=off -count=1 ./...`, which must also pass, in addition to the root module suite)" % (wt, wt)
    pkg = "(package main in cmd/arcaflow-codegen; test name TestSeedDemo)"
print(f"""You are testing a verification setup by planting a subtle bug. Work ONLY inside the git worktree {wt} (a checkout of the Go module go.flow.arcalot.io/pluginsdk — the Arcaflow plugin SDK for Go). Do not read or touch /verif or /repo. Environment: no network; before any go command run: export GOFLAGS=-mod=mod GOPROXY=off GOSUMDB=off GOTOOLCHAIN=local

The property under attack ({pid} — {p['title']}):
"{p['statement']}"
Quantifier: {p['quantifier']['text']}

Task: produce TWO DIFFERENT, independent source changes to the SDK {where} each of which BREAKS this property while (a) the module still compiles, and (b) the existing test suite still passes unchanged: `cd {wt} && go test -vet=off -count=1 ./...` must print ok for every package (run it 3 times for the atp package, it must pass every time). Each change must be a realistic mistake a maintainer could make (an off-by-one at a boundary, a dropped or inverted check on one of several code paths, a wrong variable, a lock released too early or taken too late, a state flag updated in the wrong critical section, a channel closed or signalled at the wrong moment, an error path that forgets to notify a waiter, a representation handled in one place but not another, ...) and should need something specific to manifest — a particular goroutine interleaving, a fault at a particular point of the stream, a multi-step sequence of operations, an unusual input or boundary value, or two cooperating sites that each look fine alone — NOT something that ordinary use or the existing tests would expose at once. Do not make changes that only alter error message text. Keep each change small (a few lines).

For each change i in {{1,2}} create the directory {wt}/seed/{pid}-i/ containing:
- patch.diff : `git diff` of ONLY that change relative to HEAD (apply-able with `git apply` at the worktree root; must not include the seed/ directory or test files)
- demo_test.go : a Go test file {pkg} that FAILS (or hangs and is killed by a 20 s watchdog inside the test, or crashes) with the change applied and PASSES without it. For schedule-dependent bugs the demo may force the interleaving (e.g. with a pipe wrapper that delays a particular read/write, a handler that blocks on a channel, or a short sleep), but it must be deterministic enough to fail at least 9 times out of 10 with the change and never without it.
- README.md : which property clause it breaks, what it needs in order to manifest, and the exact commands you ran (with/without the change) and their outcome.
Also create {wt}/seed/go.mod containing `module seed` so that `go test ./...` at the root ignores the seed directory.
Verify all of this yourself: apply change, run full suite (must pass), copy the demo next to the package sources and run it (must fail); revert (`git checkout -- .`, remove the copied demo), run demo again (must pass). Leave the worktree with NO uncommitted modifications to tracked files at the end (only the untracked seed/ directory). Do not commit. Report back a 5-line summary per change.""")
